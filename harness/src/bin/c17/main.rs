//! C17 — DBC tables survive write→parse and all access paths agree.
//!
//! model table ──dbcenc (independent encoder)──► reference file
//!   ► DbcParser / cached strings / LazyDbcParser (iterator, indexed) / MmapDbcFile /
//!     parse_records_parallel / key lookups (hashed, binary)         — all compared to the model
//!   ► DbcWriter::write_records ► written bytes judged by the independent decoder (size equation,
//!     each distinct string once, every value and string reference) ► all access paths again.
mod dbcenc;
mod oracle;
mod tablegen;

use dbcenc::{Table, Ty};
use oracle::{Ctx, check_table};
use serde_json::json;
use tablegen::{Params, PoolItem, build, grid_params};
use vcheck::engine::{self, Check, pt};

fn rows_class(n: usize) -> &'static str {
    match n {
        0 => "0",
        1 => "1",
        2..=9 => "2-9",
        10..=99 => "10-99",
        100..=300 => "100-300",
        301..=3000 => "301-3000",
        _ => ">3000",
    }
}

struct Shape {
    class: String,
    nontrivial: bool,
    shared: bool,
    dup_keys: bool,
    unsorted_keys: bool,
    non_ascii: bool,
    suffix_shared: bool,
}

fn shape(t: &Table) -> Shape {
    let nf = match t.fields.len() {
        1 => "1",
        2..=4 => "2-4",
        5..=12 => "5-12",
        _ => "13-24",
    };
    let mix = t.mixes_widths();
    let arr = if t.has_str_array() {
        "S"
    } else if t.has_array() {
        "1"
    } else {
        "0"
    };
    let counts = t.string_row_counts();
    let shared = counts.values().any(|&c| c >= 2);
    let strs = if !t.has_str() || t.rows.is_empty() {
        "-"
    } else if shared {
        "shared"
    } else {
        "uniq"
    };
    let non_ascii = counts.keys().any(|s| !s.is_ascii());
    let suffix_shared = t.layout.mode == 2
        && counts.keys().any(|a| {
            !a.is_empty() && counts.keys().any(|b| b.len() > a.len() && b.ends_with(a))
        });
    let keys: Vec<u32> = (0..t.rows.len()).filter_map(|r| t.key_of(r)).collect();
    let mut sorted = keys.clone();
    sorted.sort();
    let unsorted_keys = sorted != keys;
    sorted.dedup();
    let dup_keys = sorted.len() != keys.len();
    let key = match t.key {
        None => "-".to_string(),
        Some(k) => {
            let pos = if k == 0 {
                "first"
            } else if k + 1 == t.fields.len() {
                "last"
            } else {
                "mid"
            };
            format!(
                "{}{}{}{}",
                if t.fields[k].ty == Ty::I32 { "i32" } else { "u32" },
                pos,
                if dup_keys { "+dup" } else { "" },
                if unsorted_keys { "+unsorted" } else { "" }
            )
        }
    };
    let class = format!(
        "nf{nf}:w{}:arr{arr}:key{key}:rows{}:str{strs}:L{}{}{}",
        if mix { "mix" } else { "same" },
        rows_class(t.rows.len()),
        t.layout.mode,
        if t.writer_explicit_schema { "" } else { ":ws-from-set" },
        if t.tail.kind == 0 { String::new() } else { format!(":tail-{}", t.tail.name()) }
    );
    Shape {
        class,
        nontrivial: (mix || t.has_array()) && shared,
        shared,
        dup_keys,
        unsorted_keys,
        non_ascii,
        suffix_shared,
    }
}

/// Count, sample and judge one table. Returns Err for the proptest driver; the grid reports
/// through `check.fail` itself.
fn run_table(ctx: &Ctx, t: &Table) -> engine::CaseResult {
    let check = ctx.check;
    let s = shape(t);
    check.count(&s.class, s.nontrivial);
    // essential classes (measured; a grid guarantees them)
    for (flag, name) in [
        (t.has_array(), "ess:array"),
        (t.has_str_array(), "ess:string-array"),
        (t.mixes_widths(), "ess:mixed-widths"),
        (s.shared, "ess:shared-string"),
        (s.nontrivial, "ess:nontrivial"),
        (s.dup_keys, "ess:duplicate-keys"),
        (s.unsorted_keys, "ess:unsorted-keys"),
        (s.non_ascii, "ess:non-ascii-string"),
        (s.suffix_shared, "ess:suffix-shared-strings"),
        (t.layout.mode == 1 && s.shared, "ess:reference-file-with-duplicate-strings"),
        (t.rows.is_empty(), "ess:rows-0"),
        (t.rows.len() >= 10_000, "ess:rows-10000"),
        (t.fields.len() == 24, "ess:fields-24"),
        (t.key.is_some_and(|k| k > 0 && k + 1 < t.fields.len()), "ess:key-in-the-middle"),
        (t.key.is_some_and(|k| k + 1 == t.fields.len() && k > 0), "ess:key-last"),
        (!t.writer_explicit_schema, "ess:writer-schema-from-record-set"),
        (t.tail.kind == 1, "ess:file-longer-than-table:zero-padding"),
        (t.tail.kind == 2, "ess:file-longer-than-table:garbage"),
        (t.tail.kind == 3, "ess:file-longer-than-table:saved-over-older-larger-table"),
        (t.tail.kind != 0 && s.shared && !t.rows.is_empty(), "ess:file-longer-than-table:with-shared-strings"),
        (t.tail.kind != 0 && t.has_str_array(), "ess:file-longer-than-table:with-string-array"),
        (t.tail.kind != 0 && !t.has_str(), "ess:file-longer-than-table:no-string-field"),
        (t.tail.kind != 0 && t.rows.is_empty(), "ess:file-longer-than-table:rows-0"),
    ] {
        if flag {
            check.bump(name, 1);
        }
    }
    for f in &t.fields {
        check.bump(&format!("type:{}{}", f.ty.name(), if f.arr.is_some() { "[]" } else { "" }), 1);
    }
    if s.nontrivial && t.rows.len() <= 4 && t.column_count() <= 8 {
        check.sample(&s.class, || t.to_json());
    }
    let facts = check_table(ctx, t)?;
    if facts.field_count_defect {
        check.bump("cases_with_array_field_count_defect", 1);
    }
    if facts.str_array_defect {
        check.bump("cases_with_string_array_loss", 1);
    }
    Ok(())
}

fn grid() -> Vec<(String, Params)> {
    use Ty::*;
    let mut g: Vec<(String, Params)> = vec![];
    let mut seed = 0xC17u64;
    let mut next = || {
        seed = seed.wrapping_mul(6364136223846793005).wrapping_add(1442695040888963407);
        seed
    };
    // each type alone
    for ty in Ty::ALL {
        g.push((format!("single-{}", ty.name()), grid_params(vec![(ty, 0)], None, 5, next())));
    }
    // each type as an array of 1 / 3 / 8 behind an id (array of 1: columns == fields)
    for ty in Ty::ALL {
        for alen in [1u8, 3, 8] {
            g.push((
                format!("id+{}[{alen}]", ty.name()),
                grid_params(vec![(U32, 0), (ty, alen)], Some(0), 6, next()),
            ));
        }
    }
    // all nine types, key on the UInt32 at position 1; every layout × junk × writer schema source
    let nine: Vec<(Ty, u8)> = vec![
        (U8, 0), (U32, 0), (I16, 0), (Str, 0), (F32, 0), (Bool, 0), (I8, 0), (U16, 0), (I32, 0), (Str, 0),
    ];
    for mode in 0..3u8 {
        for junk in [false, true] {
            for wes in [true, false] {
                let mut p = grid_params(nine.clone(), Some(1), 12, next());
                p.layout = (mode, junk, false);
                p.writer_explicit_schema = wes;
                p.str_skew = 1;
                g.push((format!("nine-types:L{mode}:junk{}:wes{}", junk as u8, wes as u8), p));
            }
        }
    }
    // key position × key distribution
    let five: Vec<(Ty, u8)> = vec![(U32, 0), (U8, 0), (Str, 0), (U32, 0), (I16, 2), (U32, 0)];
    for kpos in [0usize, 3, 5] {
        for km in 0..7u8 {
            let mut p = grid_params(five.clone(), Some(kpos), 50, next());
            p.key_mode = km;
            g.push((format!("key@{kpos}:mode{km}"), p));
        }
    }
    // string block without a leading NUL (first string at offset 0)
    for n in [1usize, 7, 60] {
        let mut p = grid_params(vec![(U32, 0), (Str, 0), (U8, 0), (Str, 2)], Some(0), n, next());
        p.layout = (3, false, false);
        p.str_skew = 1;
        g.push((format!("no-leading-nul:rows{n}"), p));
    }
    // Int32 key, incl. keys of both signs
    for km in [1u8, 3, 0, 5, 6, 2] {
        let mut p = grid_params(vec![(I32, 0), (Str, 0), (U8, 0)], Some(0), 10, next());
        p.key_mode = km;
        g.push((format!("int32-key:mode{km}"), p));
    }
    // record counts
    for n in [0usize, 1, 2, 300, 2000, 10_000] {
        let mut p = grid_params(vec![(U32, 0), (U8, 0), (Str, 0), (I16, 0), (F32, 0), (Str, 0)], Some(0), n, next());
        p.key_mode = if n >= 2000 { 1 } else { 0 };
        p.str_skew = 2;
        p.layout = ((n % 3) as u8, false, false);
        g.push((format!("rows{n}"), p));
    }
    // widest schemas
    let all24: Vec<(Ty, u8)> = (0..24).map(|i| (Ty::ALL[i % 9], 0)).collect();
    g.push(("24-scalars".into(), grid_params(all24, Some(10), 20, next())));
    let arr24: Vec<(Ty, u8)> = (0..24).map(|i| (Ty::ALL[(i * 5 + 2) % 9], 8)).collect();
    g.push(("24-arrays-of-8".into(), grid_params(arr24, None, 7, next())));
    let mixed24: Vec<(Ty, u8)> = (0..24).map(|i| (Ty::ALL[(i * 7) % 9], (i % 4) as u8)).collect();
    g.push(("24-mixed".into(), grid_params(mixed24, Some(9), 40, next())));
    // strings
    let strs: Vec<(Ty, u8)> = vec![(U32, 0), (Str, 0), (U8, 0), (Str, 0)];
    {
        let mut p = grid_params(strs.clone(), Some(0), 8, next());
        p.pool = vec![PoolItem::Text(String::new())];
        g.push(("only-empty-strings".into(), p));
        let mut p = grid_params(strs.clone(), Some(0), 8, next());
        p.pool = vec![PoolItem::Text("same".into())];
        p.layout = (1, false, false);
        g.push(("all-rows-same-string:per-ref-copies".into(), p));
        let mut p = grid_params(strs.clone(), Some(0), 8, next());
        p.pool = vec![
            PoolItem::Text("a".repeat(1000)),
            PoolItem::SuffixOf(0, 1),
            PoolItem::SuffixOf(0, 200),
            PoolItem::Text("日本語テキスト".into()),
            PoolItem::SuffixOf(3, 3),
        ];
        p.layout = (2, true, false);
        g.push(("long+suffix-shared".into(), p));
        // every pair of hash-colliding strings in one table (rows ≥ 2 × pool so that each is referenced)
        let mut p = grid_params(strs.clone(), Some(0), 240, next());
        p.pool = (0..tablegen::COLLIDING_PAIRS.len() as u8).map(PoolItem::CollidingPair).collect();
        p.str_skew = 0;
        g.push(("hash-colliding-string-pairs".into(), p));
        for (eb, junk) in [(true, false), (false, false), (true, true)] {
            let mut p = grid_params(vec![(U16, 0), (U32, 0), (I8, 0)], Some(1), 4, next());
            p.layout = (0, junk, eb);
            g.push((format!("no-string-field:empty-block{}:junk{}", eb as u8, junk as u8), p));
        }
    }
    // files that are longer than the table they hold: padding to an alignment, garbage, the end of an older
    // table with more rows; the rewritten file is then also saved over such a file (opened without truncation)
    for (kind, lens) in [(1u8, [4u16, 16, 512]), (2, [1, 7, 64]), (3, [1, 5, 40])] {
        for (li, len) in lens.into_iter().enumerate() {
            for mode in 0..4u8 {
                let mut p = grid_params(nine.clone(), Some(1), 12, next());
                p.layout = (mode, mode == 2, false);
                p.writer_explicit_schema = (li + mode as usize) % 2 == 0;
                p.str_skew = 1;
                p.tail = (kind, len);
                g.push((format!("file-longer-than-table:kind{kind}:len{len}:L{mode}"), p));
            }
        }
        for n in [0usize, 1, 2, 300] {
            let mut p = grid_params(vec![(U32, 0), (U8, 0), (Str, 0), (I16, 0), (Str, 2)], Some(0), n, next());
            p.str_skew = 2;
            p.tail = (kind, 3);
            g.push((format!("file-longer-than-table:kind{kind}:rows{n}"), p));
        }
        let mut p = grid_params(vec![(U16, 0), (U32, 0), (I8, 0)], Some(1), 4, next());
        p.tail = (kind, 9);
        g.push((format!("file-longer-than-table:kind{kind}:no-string-field"), p));
        let mut p = grid_params(vec![(U16, 0), (U32, 0), (I8, 0)], Some(1), 0, next());
        p.layout = (0, false, true);
        p.tail = (kind, 2);
        g.push((format!("file-longer-than-table:kind{kind}:no-string-field:empty-block:rows0"), p));
        let mut p = grid_params(vec![(U32, 0), (Str, 8), (U32, 0)], Some(0), 5, next());
        p.tail = (kind, 6);
        g.push((format!("file-longer-than-table:kind{kind}:locstring[8]"), p));
    }
    // locale-style string arrays: lost elements vs. elements that a scalar field also references
    {
        let mut p = grid_params(vec![(U32, 0), (Str, 8), (U32, 0)], Some(0), 5, next());
        p.str_skew = 0;
        g.push(("locstring[8]".into(), p));
        let mut p = grid_params(vec![(U32, 0), (Str, 0), (Str, 2)], Some(0), 30, next());
        p.pool = vec![PoolItem::Text("only".into())];
        g.push(("string-array-sharing-with-scalar".into(), p));
    }
    g
}

fn main() {
    let (check, _args) = Check::new("C17", "exploration");
    check.set_rule(
        "A case is one table: schema of 1..24 fields over the nine field types, each scalar or an \
         array of 1..8, optional UInt32 key field at any position, 0..300 rows (a few up to 10 000) \
         whose atoms are boundary-heavy random values (floats as raw bits incl. NaNs), strings drawn \
         from a pool of 1..10 texts (empty, ASCII, non-ASCII, long, suffix of another, duplicate), \
         keys duplicate-heavy/unsorted/sorted; the reference file is produced by the harness's own \
         WDBC encoder with an interned, per-reference-copy or suffix-shared string block; 30 % of \
         the tables live in a file that is longer than the table (zero padding to an alignment, \
         garbage, or the end of an older table with more rows behind the string block; the \
         rewritten table is then also saved by DbcWriter over such a file opened without \
         truncation, the older table having been saved by DbcWriter too). A \
         deterministic grid (independent of the seed) visits every type as scalar and array, every \
         layout, key positions and distributions, 0/1/2/300/2000/10000 rows, 24-field schemas. \
         Non-trivial = schema mixes field widths or has an array AND at least two records share a \
         string. Distinct = (field-count class, widths, arrays, key type/position/dup/unsorted, \
         row class, string sharing, string-block layout, writer schema source, kind of bytes behind the table).",
    );
    check.assume("dbcenc (this directory) is my transcription of the published WDBC layout; header field_count counts columns with arrays expanded (what Schema::validate demands of a file)");
    check.assume("strings are valid UTF-8 without NUL (the API returns &str); Bool atoms are written as 0/1 in the reference file");
    check.assume("a file whose header describes the table exactly and that has further bytes behind the string block is a valid file (parse_layout: header, records and strings 'must not be larger than the file'); all access paths must read the table from it");
    check.assume("a lookup of a duplicated key may return any record carrying that key");
    check.assume("Int32 key values are generated non-negative so that `as u32` is the only reading of the Key type");

    if let Err(e) = dbcenc::self_check() {
        check.inconclusive(&format!("dbcenc self-check failed: {e}"));
        check.finish();
    }

    let neutralise = std::env::var("C17_EXCLUSIONS").ok().as_deref() != Some("off");
    // the Int32-key finding is fixed in /repo: Int32 keys are part of the random volume by default
    let i32_keys_in_random = std::env::var("C17_INT32_KEYS").ok().as_deref() != Some("off");
    let dir = engine::scratch("c17");
    let ctx = Ctx {
        check: &check,
        dir: dir.path(),
        neutralise,
    };
    check.set_extra(
        "exclusion_switches",
        json!({
            "C17_EXCLUSIONS": if neutralise {"on (default): a case that meets a *listed* finding records it and continues with the effect neutralised (field_count patched / string-array elements not compared in the rewritten file / Int32-key lookups skipped)"} else {"off: a case stops at the first finding"},
            "C17_INT32_KEYS": if i32_keys_in_random {"on: a quarter of the keyed random tables use an Int32 key"} else {"off (default): random tables use UInt32 keys only; Int32 keys are exercised by 3 grid canaries"},
        }),
    );

    if let Some(p) = check.replay.clone() {
        let v: serde_json::Value =
            serde_json::from_str(&std::fs::read_to_string(&p).expect("replay file")).expect("json");
        let c = &v["case"];
        match Table::from_json(c) {
            Ok(t) => {
                let r = engine::guard("c17-replay", || run_table(&ctx, &t)).and_then(|x| x);
                if let Err(f) = r {
                    check.fail(&f, c.clone());
                }
            }
            Err(e) => check.inconclusive(&format!("replay file does not hold a valid table: {e}")),
        }
        let _ = dir.close();
        check.finish();
    }

    // 1. deterministic grid
    let g = grid();
    for (name, p) in &g {
        let t = build(p);
        if let Err(e) = t.validate() {
            check.inconclusive(&format!("grid case {name} is not a valid table: {e}"));
            continue;
        }
        check.bump("grid_cases", 1);
        let r = engine::guard("c17-grid", || run_table(&ctx, &t)).and_then(|x| x);
        if let Err(mut f) = r {
            f.message = format!("[grid {name}] {}", f.message);
            check.fail(&f, t.to_json());
        }
    }
    // the grid must have produced the essential classes whatever the seed
    for ess in [
        "ess:array",
        "ess:string-array",
        "ess:mixed-widths",
        "ess:shared-string",
        "ess:nontrivial",
        "ess:duplicate-keys",
        "ess:unsorted-keys",
        "ess:non-ascii-string",
        "ess:suffix-shared-strings",
        "ess:reference-file-with-duplicate-strings",
        "ess:rows-0",
        "ess:rows-10000",
        "ess:fields-24",
        "ess:key-in-the-middle",
        "ess:key-last",
        "ess:writer-schema-from-record-set",
        "ess:file-longer-than-table:zero-padding",
        "ess:file-longer-than-table:garbage",
        "ess:file-longer-than-table:saved-over-older-larger-table",
        "ess:file-longer-than-table:with-shared-strings",
        "ess:file-longer-than-table:with-string-array",
        "ess:file-longer-than-table:no-string-field",
        "ess:file-longer-than-table:rows-0",
    ] {
        if check.counter(ess) == 0 {
            check.inconclusive(&format!("essential class {ess} not produced by the grid"));
        }
    }
    for ty in Ty::ALL {
        for suffix in ["", "[]"] {
            if check.counter(&format!("type:{}{suffix}", ty.name())) == 0 {
                check.inconclusive(&format!("type {}{suffix} never generated", ty.name()));
            }
        }
    }

    // 2. random volume
    let cases = std::env::var("C17_CASES")
        .ok()
        .and_then(|s| s.parse().ok())
        .unwrap_or(check.tier.pick(20_000u32, 400_000)); // C17_CASES: development override only
    let max_rows = 300usize;
    let tail = check.tier.pick(1_000usize, 2_000);
    pt::run(
        &check,
        "c17-random",
        cases,
        pt::Opts::default(),
        || tablegen::params(tablegen::rows_small(max_rows, tail), max_rows, i32_keys_in_random),
        |p| build(p).to_json(),
        |p| {
            let t = build(p);
            run_table(&ctx, &t)
        },
    );

    // 3. large tables (up to 10^4 records, at most 8 columns), a separately budgeted volume
    let large = std::env::var("C17_LARGE")
        .ok()
        .and_then(|s| s.parse().ok())
        .unwrap_or(check.tier.pick(32u32, 1_600));
    pt::run(
        &check,
        "c17-large",
        large,
        pt::Opts {
            max_shrink_iters: 300,
            ..pt::Opts::default()
        },
        || {
            use proptest::prelude::*;
            tablegen::params(
                prop_oneof![3 => 1_000usize..4_000, 1 => 4_000usize..=10_000].boxed(),
                max_rows,
                i32_keys_in_random,
            )
        },
        |p| build(p).to_json(),
        |p| {
            let t = build(p);
            run_table(&ctx, &t)
        },
    );

    let _ = dir.close();
    check.finish();
}
