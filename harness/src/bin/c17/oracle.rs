//! The C17 oracle: one materialised `Table` through reference encoding → every access path →
//! `DbcWriter` → structural judgement of the written bytes → every access path again.

use crate::dbcenc::{self, Table, Ty};
use std::collections::{BTreeMap, BTreeSet};
use std::io::Cursor;
use std::path::Path;
use std::sync::Arc;
use std::sync::atomic::{AtomicU64, Ordering};
use vcheck::engine::{CaseResult, Check, Fail, pt, truncate};
use wow_cdbc::{
    DbcParser, DbcWriter, Error, FieldType, LazyDbcParser, MmapDbcFile, Record, RecordSet, Schema,
    SchemaField, StringRef, Value, parse_records_parallel,
};

pub const SIG_FIELD_COUNT: &str = "dbc-writer-field-count-ignores-array-expansion";
pub const SIG_STR_ARRAY: &str = "dbc-writer-drops-string-array-elements";
pub const SIG_I32_KEY: &str = "dbc-int32-key-field-not-indexed";

pub struct Ctx<'a> {
    pub check: &'a Check,
    pub dir: &'a Path,
    /// exclusion switch: continue past a *known* finding with its effect neutralised
    /// (header fix-up / masked comparison / skipped lookups) so that the rest of the case is
    /// still judged. Off = the case stops at the finding.
    pub neutralise: bool,
}

static FILE_NO: AtomicU64 = AtomicU64::new(0);

/// A known finding met inside a case: count it and go on (switch on), otherwise fail the case.
fn soft(ctx: &Ctx, sig: &str, msg: String) -> CaseResult {
    if ctx.neutralise && ctx.check.is_known(sig) {
        if !pt::suppressed() {
            ctx.check.known_hit(sig, &msg);
            ctx.check.bump(&format!("continued_past:{sig}"), 1);
        }
        Ok(())
    } else {
        Err(Fail::new(sig, msg))
    }
}

fn ft(t: Ty) -> FieldType {
    match t {
        Ty::I32 => FieldType::Int32,
        Ty::U32 => FieldType::UInt32,
        Ty::F32 => FieldType::Float32,
        Ty::Str => FieldType::String,
        Ty::Bool => FieldType::Bool,
        Ty::U8 => FieldType::UInt8,
        Ty::I8 => FieldType::Int8,
        Ty::U16 => FieldType::UInt16,
        Ty::I16 => FieldType::Int16,
    }
}

/// The schema as a caller would build it through the public API
pub fn crate_schema(t: &Table) -> Schema {
    let mut s = Schema::new("T");
    for (i, f) in t.fields.iter().enumerate() {
        match f.arr {
            Some(n) => s.add_field(SchemaField::new_array(format!("f{i}"), ft(f.ty), n)),
            None => s.add_field(SchemaField::new(format!("f{i}"), ft(f.ty))),
        };
    }
    if let Some(k) = t.key {
        s.set_key_field_index(k);
    }
    s
}

fn errkind(e: &Error) -> &'static str {
    match e {
        Error::Io(_) => "Io",
        Error::InvalidHeader(_) => "InvalidHeader",
        Error::InvalidRecord(_) => "InvalidRecord",
        Error::InvalidStringBlock(_) => "InvalidStringBlock",
        Error::SchemaValidation(_) => "SchemaValidation",
        Error::OutOfBounds(_) => "OutOfBounds",
        Error::TypeConversion(_) => "TypeConversion",
    }
}

/// does a library scalar carry exactly the model atom? (floats bitwise)
fn atom_eq(v: &Value, ty: Ty, want: i64) -> bool {
    match (v, ty) {
        (Value::Int32(x), Ty::I32) => *x as i64 == want,
        (Value::UInt32(x), Ty::U32) => *x as i64 == want,
        (Value::Float32(x), Ty::F32) => x.to_bits() as i64 == want,
        (Value::Bool(x), Ty::Bool) => *x as i64 == want,
        (Value::UInt8(x), Ty::U8) => *x as i64 == want,
        (Value::Int8(x), Ty::I8) => *x as i64 == want,
        (Value::UInt16(x), Ty::U16) => *x as i64 == want,
        (Value::Int16(x), Ty::I16) => *x as i64 == want,
        _ => false,
    }
}

type Resolver<'a> = &'a dyn Fn(StringRef) -> Result<String, String>;
/// `Some(kept)` once the string-array finding was met in this case: String-array elements whose
/// text is not in `kept` (the strings some scalar String field references, which the writer does
/// intern) are known to be lost in the rewritten file and are not compared there.
type Mask<'a> = Option<&'a BTreeSet<String>>;

/// Compare one library record with model row `r`. `where_` = "<stage>:<path>".
fn cmp_record(
    where_: &str,
    rec: &Record,
    t: &Table,
    r: usize,
    resolve: Resolver,
    mask: Mask,
) -> CaseResult {
    if rec.len() != t.fields.len() {
        return Err(Fail::new(
            format!("{where_}:record-has-wrong-number-of-values"),
            format!("row {r}: {} values, schema has {} fields", rec.len(), t.fields.len()),
        ));
    }
    let row = &t.rows[r];
    let mut a = 0usize;
    for (fi, f) in t.fields.iter().enumerate() {
        let v = rec.get_value(fi).unwrap();
        let elems: Vec<&Value> = match (f.arr, v) {
            (Some(n), Value::Array(xs)) => {
                if xs.len() != n {
                    return Err(Fail::new(
                        format!("{where_}:array-length-differs"),
                        format!("row {r} field {fi}: {} elements, schema says {n}", xs.len()),
                    ));
                }
                xs.iter().collect()
            }
            (None, Value::Array(_)) | (Some(_), _) => {
                return Err(Fail::new(
                    format!("{where_}:array-shape-differs"),
                    format!("row {r} field {fi}: got {v:?} for {f:?}"),
                ));
            }
            (None, x) => vec![x],
        };
        for (ei, x) in elems.into_iter().enumerate() {
            let want = row[a];
            a += 1;
            if f.ty == Ty::Str {
                let Value::StringRef(sr) = x else {
                    return Err(Fail::new(
                        format!("{where_}:value-differs:String"),
                        format!("row {r} field {fi}[{ei}]: got {x:?} for a string field"),
                    ));
                };
                let want_s = t.str_of(want);
                if f.arr.is_some() && mask.is_some_and(|kept| !want_s.is_empty() && !kept.contains(want_s)) {
                    continue; // element lost by the known string-array defect
                }
                match resolve(*sr) {
                    Ok(s) if s == want_s => {}
                    Ok(s) => {
                        return Err(Fail::new(
                            format!("{where_}:string-differs"),
                            format!(
                                "row {r} field {fi}[{ei}]: offset {} resolves to {:?}, expected {:?}",
                                sr.offset(),
                                truncate(&s, 60),
                                truncate(want_s, 60)
                            ),
                        ));
                    }
                    Err(e) => {
                        return Err(Fail::new(
                            format!("{where_}:string-unresolvable"),
                            format!(
                                "row {r} field {fi}[{ei}]: offset {} → {e}, expected {:?}",
                                sr.offset(),
                                truncate(want_s, 60)
                            ),
                        ));
                    }
                }
            } else if !atom_eq(x, f.ty, want) {
                return Err(Fail::new(
                    format!("{where_}:value-differs:{}", f.ty.name()),
                    format!(
                        "row {r} field {fi}[{ei}] ({}): got {x:?}, expected atom {want}{}",
                        f.ty.name(),
                        if f.ty == Ty::F32 { " (f32 bits)" } else { "" }
                    ),
                ));
            }
        }
    }
    Ok(())
}

fn cmp_all(
    where_: &str,
    recs: &[Record],
    t: &Table,
    resolve: Resolver,
    mask: Mask,
) -> CaseResult {
    if recs.len() != t.rows.len() {
        return Err(Fail::new(
            format!("{where_}:record-count-differs"),
            format!("{} records, expected {}", recs.len(), t.rows.len()),
        ));
    }
    for (r, rec) in recs.iter().enumerate() {
        cmp_record(where_, rec, t, r, resolve, mask)?;
    }
    Ok(())
}

fn lib_err(where_: &str, what: &str, e: &Error) -> Fail {
    Fail::new(
        format!("{where_}:{what}:{}", errkind(e)),
        format!("{what}: {e}"),
    )
}

/// key lookups on one record set. `mode` = "hashed" | "binary".
fn check_keys(
    ctx: &Ctx,
    where_: &str,
    rs: &RecordSet,
    t: &Table,
    binary: bool,
    mask: Mask,
) -> CaseResult {
    let Some(kf) = t.key else { return Ok(()) };
    let mode = if binary { "binary" } else { "hashed" };
    let look = |k: u32| {
        if binary {
            rs.get_record_by_key_binary_search(k)
        } else {
            rs.get_record_by_key(k)
        }
    };
    let mut present: BTreeMap<u32, Vec<usize>> = BTreeMap::new();
    for r in 0..t.rows.len() {
        present.entry(t.key_of(r).unwrap()).or_default().push(r);
    }
    let resolver = |sr: StringRef| rs.get_string(sr).map(|s| s.to_string()).map_err(|e| e.to_string());
    for (k, rows) in &present {
        match look(*k) {
            None => {
                if t.fields[kf].ty == Ty::I32 {
                    // validate() accepts an Int32 key field, but only Value::UInt32 is indexed
                    soft(
                        ctx,
                        SIG_I32_KEY,
                        format!(
                            "{where_}: key field {kf} is Int32 (accepted by Schema::validate); {mode} lookup of present key {k} returns None ({} records)",
                            t.rows.len()
                        ),
                    )?;
                    return Ok(());
                }
                return Err(Fail::new(
                    format!("{where_}:key-lookup-misses-present-key:{mode}"),
                    format!("key {k} is carried by row(s) {rows:?} but the {mode} lookup returns None"),
                ));
            }
            Some(rec) => {
                let carried = match rec.get_value(kf) {
                    Some(Value::UInt32(x)) => Some(*x),
                    Some(Value::Int32(x)) => Some(*x as u32),
                    _ => None,
                };
                if carried != Some(*k) {
                    return Err(Fail::new(
                        format!("{where_}:key-lookup-returns-record-with-other-key:{mode}"),
                        format!("{mode} lookup of key {k} returned a record whose key field is {:?}", rec.get_value(kf)),
                    ));
                }
                // it must be one of the model rows carrying that key
                let mut last = None;
                let hit = rows.iter().any(|&r| match cmp_record(where_, rec, t, r, &resolver, mask) {
                    Ok(()) => true,
                    Err(f) => {
                        last = Some(f);
                        false
                    }
                });
                if !hit {
                    return Err(Fail::new(
                        format!("{where_}:key-lookup-returns-unknown-record:{mode}"),
                        format!(
                            "{mode} lookup of key {k}: record equals none of rows {rows:?} ({})",
                            last.map(|f| f.message).unwrap_or_default()
                        ),
                    ));
                }
            }
        }
    }
    // absent keys
    let lo = present.keys().next().copied();
    let hi = present.keys().next_back().copied();
    let mut cands: Vec<u32> = vec![0, 1, 2, u32::MAX, 0x8000_0000, 12345, 0xDEAD_BEEF];
    if let Some(lo) = lo {
        cands.push(lo.wrapping_sub(1));
    }
    if let Some(hi) = hi {
        cands.push(hi.wrapping_add(1));
    }
    for k in present.keys().take(8) {
        cands.push(k.wrapping_add(1));
        cands.push(k ^ 0x4000_0000);
    }
    for k in cands {
        if !present.contains_key(&k) && look(k).is_some() {
            return Err(Fail::new(
                format!("{where_}:key-lookup-finds-absent-key:{mode}"),
                format!("no row carries key {k} but the {mode} lookup returns a record"),
            ));
        }
    }
    Ok(())
}

/// All access paths on one file. Returns the eagerly parsed record set.
fn check_file(
    ctx: &Ctx,
    stage: &str,
    bytes: &[u8],
    t: &Table,
    mask: Mask,
) -> Result<RecordSet, Fail> {
    let schema = crate_schema(t);
    let n = t.rows.len();

    // ---- eager
    let w = format!("{stage}:eager");
    let parser = DbcParser::parse_bytes(bytes).map_err(|e| lib_err(&w, "parse_bytes-rejected", &e))?;
    let ih = dbcenc::read_header(bytes).map_err(|e| Fail::new(format!("{w}:independent-header"), e))?;
    let h = *parser.header();
    if (h.record_count, h.field_count, h.record_size, h.string_block_size)
        != (ih.record_count, ih.field_count, ih.record_size, ih.string_block_size)
    {
        return Err(Fail::new(
            format!("{w}:header-differs"),
            format!("library header {h:?}, file says {ih:?}"),
        ));
    }
    let parser = parser
        .with_schema(schema.clone())
        .map_err(|e| lib_err(&w, "own-schema-rejected", &e))?;
    let rs = parser
        .parse_records()
        .map_err(|e| lib_err(&w, "parse_records-failed", &e))?;
    if rs.len() != n || rs.is_empty() != (n == 0) {
        return Err(Fail::new(format!("{w}:record-count-differs"), format!("len {} expected {n}", rs.len())));
    }
    cmp_all(
        &w,
        rs.records(),
        t,
        &|sr| rs.get_string(sr).map(|s| s.to_string()).map_err(|e| e.to_string()),
        mask,
    )?;
    // the bytes the header describes as the string block, sliced without the library: behind
    // header and records, whatever follows them in the file
    let block_at = 20usize + ih.record_count as usize * ih.record_size as usize;
    let want_block: &[u8] = bytes
        .get(block_at..block_at + ih.string_block_size as usize)
        .ok_or_else(|| Fail::new(format!("{w}:independent-header"), format!("{ih:?} does not fit into {} bytes", bytes.len())))?;
    let trailing = bytes.len() - block_at - want_block.len();
    if trailing > 0 && !pt::suppressed() {
        ctx.check.bump("files_with_bytes_behind_the_string_block_checked", 1);
    }
    let block_is = |w: &str, got: &[u8]| -> CaseResult {
        if got == want_block {
            return Ok(());
        }
        let at = if bytes.len() <= 1 << 20 { bytes.windows(got.len().max(1)).position(|x| x == got) } else { None };
        Err(Fail::new(
            format!("{w}:string-block-is-not-the-bytes-the-header-describes"),
            format!(
                "the header puts the {}-byte string block at offset {block_at} of the {}-byte file ({trailing} bytes follow it); this path's block has {} bytes {}",
                want_block.len(),
                bytes.len(),
                got.len(),
                match at {
                    Some(o) if !got.is_empty() => format!("that are found at offset {o}"),
                    _ => "that differ".to_string(),
                }
            ),
        ))
    };
    // the string block accessor, and the cached resolver
    {
        let w = format!("{stage}:string-block-accessor");
        let sb = rs.string_block();
        block_is(&w, sb.data())?;
        cmp_all(
            &w,
            rs.records(),
            t,
            &|sr| sb.get_string(sr).map(|s| s.to_string()).map_err(|e| e.to_string()),
            mask,
        )?;
        let w = format!("{stage}:cached-strings");
        let mut rc = rs.clone();
        rc.enable_string_caching();
        cmp_all(
            &w,
            rc.records(),
            t,
            &|sr| rc.get_string(sr).map(|s| s.to_string()).map_err(|e| e.to_string()),
            mask,
        )?;
    }

    // ---- lazy (constructed the way examples/comprehensive.rs does)
    let sb = Arc::new(rs.string_block().clone());
    {
        let lazy = LazyDbcParser::new(parser.data(), parser.header(), parser.schema(), Arc::clone(&sb));
        let lres = |sr: StringRef| {
            lazy.string_block()
                .get_string(sr)
                .map(|s| s.to_string())
                .map_err(|e| e.to_string())
        };
        let w = format!("{stage}:lazy-iter");
        let recs: Vec<Record> = lazy
            .record_iterator()
            .collect::<Result<Vec<_>, _>>()
            .map_err(|e| lib_err(&w, "iterator-item-failed", &e))?;
        cmp_all(&w, &recs, t, &lres, mask)?;
        // an iterator that was advanced and is then skipped forward: next, nth(2), then every second record
        {
            let w = format!("{stage}:lazy-iter-skips");
            let mut it = lazy.record_iterator();
            let mut want_idx = vec![];
            let mut got = vec![];
            if n >= 1 {
                want_idx.push(0);
                got.push(it.next());
            }
            if n >= 4 {
                want_idx.push(3);
                got.push(it.nth(2));
                let mut i = 4;
                for r in it.by_ref().step_by(2).take(6) {
                    want_idx.push(i);
                    got.push(Some(r));
                    i += 2;
                }
                let produced = want_idx.len() - 2;
                let expect = ((n - 4) + 1) / 2;
                if produced != expect.min(6) {
                    return Err(Fail::new(format!("{w}:wrong-number-of-records"), format!("{n} records: step_by(2) behind next+nth(2) yields {produced} records, expected {}", expect.min(6))));
                }
            }
            for (i, g) in want_idx.iter().zip(got) {
                match g {
                    Some(Ok(rec)) => cmp_record(&w, &rec, t, *i, &lres, mask)?,
                    Some(Err(e)) => return Err(lib_err(&w, "iterator-item-failed", &e)),
                    None => return Err(Fail::new(format!("{w}:iterator-ends-early"), format!("{n} records: no record {i} from an advanced iterator"))),
                }
            }
        }
        let w = format!("{stage}:lazy-index");
        // every index for small tables; a fixed stride plus both ends for large ones; visited
        // in a scrambled order so that position-dependent state would show
        let step = if n <= 400 { 1 } else { n / 200 };
        let mut idx: Vec<usize> = (0..n).step_by(step.max(1)).collect();
        if n > 0 && idx.last() != Some(&(n - 1)) {
            idx.push(n - 1);
        }
        idx.reverse();
        if idx.len() > 2 {
            let m = idx.len() / 2;
            idx.swap(0, m);
        }
        for i in idx {
            let rec = lazy
                .get_record(i as u32)
                .map_err(|e| lib_err(&w, "get_record-failed", &e))?;
            cmp_record(&w, &rec, t, i, &lres, mask)?;
        }
    }

    // ---- memory-mapped
    {
        let w = format!("{stage}:mmap");
        let path = ctx
            .dir
            .join(format!("t{}.dbc", FILE_NO.fetch_add(1, Ordering::Relaxed)));
        std::fs::write(&path, bytes).expect("scratch write");
        let res = (|| -> CaseResult {
            let mm = MmapDbcFile::open(&path).map_err(|e| lib_err(&w, "open-failed", &e))?;
            if mm.as_slice() != bytes {
                return Err(Fail::new(format!("{w}:mapped-bytes-differ"), "as_slice() != file contents".to_string()));
            }
            if *mm.header() != h {
                return Err(Fail::new(
                    format!("{w}:header-differs"),
                    format!("mmap header {:?}, eager header {h:?}", mm.header()),
                ));
            }
            let mp = mm
                .parser_with_schema(schema.clone())
                .map_err(|e| lib_err(&w, "own-schema-rejected", &e))?;
            let mrs = mp
                .parse_records()
                .map_err(|e| lib_err(&w, "parse_records-failed", &e))?;
            cmp_all(
                &w,
                mrs.records(),
                t,
                &|sr| mrs.get_string(sr).map(|s| s.to_string()).map_err(|e| e.to_string()),
                mask,
            )?;
            let msb = mm
                .string_block()
                .map_err(|e| lib_err(&w, "string_block-failed", &e))?;
            let w2 = format!("{stage}:mmap-string-block");
            block_is(&w2, msb.data())?;
            cmp_all(
                &w2,
                mrs.records(),
                t,
                &|sr| msb.get_string(sr).map(|s| s.to_string()).map_err(|e| e.to_string()),
                mask,
            )?;
            check_keys(ctx, &w, &mrs, t, false, mask)
        })();
        let _ = std::fs::remove_file(&path);
        res?;
    }

    // ---- parallel (called the way examples/comprehensive.rs does)
    let prs = {
        let w = format!("{stage}:parallel");
        let prs = parse_records_parallel(bytes, parser.header(), parser.schema(), Arc::clone(&sb))
            .map_err(|e| lib_err(&w, "parse_records_parallel-failed", &e))?;
        cmp_all(
            &w,
            prs.records(),
            t,
            &|sr| prs.get_string(sr).map(|s| s.to_string()).map_err(|e| e.to_string()),
            mask,
        )?;
        prs
    };

    // ---- parallel with a schema the caller built itself (not the parser's validated copy)
    let prs_own = {
        let w = format!("{stage}:parallel-own-schema");
        let own = crate_schema(t);
        let prs = parse_records_parallel(bytes, parser.header(), Some(&own), Arc::clone(&sb))
            .map_err(|e| lib_err(&w, "parse_records_parallel-failed", &e))?;
        cmp_all(
            &w,
            prs.records(),
            t,
            &|sr| prs.get_string(sr).map(|s| s.to_string()).map_err(|e| e.to_string()),
            mask,
        )?;
        prs
    };

    // ---- key lookups: hashed, then binary-searched (and hashed again, because
    // create_sorted_key_map rebuilds the hash map), on the eager and the parallel sets
    if t.key.is_some() {
        for (name, set) in [("eager", &rs), ("parallel", &prs), ("parallel-own-schema", &prs_own)] {
            let w = format!("{stage}:{name}");
            check_keys(ctx, &w, set, t, false, mask)?;
            let mut sorted = set.clone();
            sorted
                .create_sorted_key_map()
                .map_err(|e| lib_err(&w, "create_sorted_key_map-failed", &e))?;
            check_keys(ctx, &w, &sorted, t, true, mask)?;
            let w2 = format!("{stage}:{name}-after-sort");
            check_keys(ctx, &w2, &sorted, t, false, mask)?;
        }
    }
    Ok(rs)
}

/// Outcome facts used for class bookkeeping
#[derive(Default, Debug)]
pub struct Facts {
    pub field_count_defect: bool,
    pub str_array_defect: bool,
}

/// The whole property on one table
pub fn check_table(ctx: &Ctx, t: &Table) -> Result<Facts, Fail> {
    let mut facts = Facts::default();
    let n = t.rows.len();
    let rsz = t.record_size();

    // A. reference file by the independent encoder; B/C/D. every access path agrees with the model
    // (with a tail: the same file followed by padding / by the end of an older, larger table)
    let mut bytes0 = dbcenc::encode(t);
    let tail0 = dbcenc::reference_tail(t, &bytes0);
    let stage0 = if tail0.is_empty() { "reference-file" } else { "reference-file-with-trailing-bytes" };
    bytes0.extend_from_slice(&tail0);
    let rs0 = check_file(ctx, stage0, &bytes0, t, None)?;

    // E. write
    let st = "rewritten-file";
    let mut cur = Cursor::new(Vec::new());
    {
        let mut wtr = if t.writer_explicit_schema {
            DbcWriter::new(&mut cur).with_schema(crate_schema(t))
        } else {
            DbcWriter::new(&mut cur)
        };
        wtr.write_records(&rs0)
            .map_err(|e| lib_err(st, "write_records-failed", &e))?;
    }
    let mut bytes1 = cur.into_inner();
    let written = bytes1.clone();
    // the same table written over the start of a sink that already holds a longer file
    {
        let mut cur = Cursor::new(vec![0xEEu8; bytes1.len() + 700]);
        let r = {
            let mut wtr = if t.writer_explicit_schema { DbcWriter::new(&mut cur).with_schema(crate_schema(t)) } else { DbcWriter::new(&mut cur) };
            wtr.write_records(&rs0)
        };
        let pos = cur.position() as usize;
        let buf = cur.into_inner();
        if r.is_err() || pos != bytes1.len() || buf[..pos.min(buf.len())] != bytes1[..] {
            return Err(Fail::new(
                format!("{st}:write-depends-on-what-the-sink-held"),
                format!("write_records into a sink holding {} older bytes leaves the stream at {pos} / differs from the {}-byte file written into an empty sink", bytes1.len() + 700, bytes1.len()),
            ));
        }
    }

    // one writer instance used for two saves (save, then save again): the second table is written exactly as
    // a fresh writer writes it — over the first one, or behind it if the writer does not rewind
    {
        let mut cur = Cursor::new(Vec::new());
        let r = {
            let mut wtr = if t.writer_explicit_schema { DbcWriter::new(&mut cur).with_schema(crate_schema(t)) } else { DbcWriter::new(&mut cur) };
            wtr.write_records(&rs0).and_then(|_| wtr.write_records(&rs0))
        };
        let pos = cur.position() as usize;
        let buf = cur.into_inner();
        let over = pos == bytes1.len() && buf.len() >= pos && buf[..pos] == bytes1[..];
        let behind = pos == 2 * bytes1.len() && buf.len() == pos && buf[..bytes1.len()] == bytes1[..] && buf[bytes1.len()..] == bytes1[..];
        if r.is_err() || !(over || behind) {
            return Err(Fail::new(
                format!("{st}:second-save-of-one-writer-differs-from-a-fresh-writer"),
                format!("two write_records calls on one DbcWriter: {:?}, stream at {pos}, {} bytes in the sink; a fresh writer writes {} bytes", r.as_ref().err().map(|e| e.to_string()), buf.len(), bytes1.len()),
            ));
        }
    }

    // E1. size and header, judged without the library
    let h1 = dbcenc::read_header(&bytes1).map_err(|e| Fail::new(format!("{st}:bad-header"), e))?;
    if h1.record_count as usize != n {
        return Err(Fail::new(
            format!("{st}:header-record-count"),
            format!("record_count {} for {n} records", h1.record_count),
        ));
    }
    if h1.record_size as usize != rsz {
        return Err(Fail::new(
            format!("{st}:header-record-size"),
            format!("record_size {} but the fields need {rsz} bytes ({:?})", h1.record_size, t.fields),
        ));
    }
    let want_len = 20 + n * rsz + h1.string_block_size as usize;
    if bytes1.len() != want_len {
        return Err(Fail::new(
            format!("{st}:size-not-header-plus-records-plus-strings"),
            format!(
                "{} bytes written; 20 + {n}*{rsz} + string block {} = {want_len}",
                bytes1.len(),
                h1.string_block_size
            ),
        ));
    }

    // E2. string block: each distinct string once
    let d1 = dbcenc::decode(&bytes1, &t.fields).map_err(|e| Fail::new(format!("{st}:independent-decode-failed"), e))?;
    let entries = dbcenc::block_entries(d1.block).map_err(|e| Fail::new(format!("{st}:string-block-unterminated"), e))?;
    {
        let mut seen: BTreeSet<&[u8]> = BTreeSet::new();
        for e in &entries {
            if !seen.insert(e) {
                return Err(Fail::new(
                    format!("{st}:string-stored-more-than-once"),
                    format!(
                        "string {:?} appears twice in the written string block ({} entries, {} bytes)",
                        String::from_utf8_lossy(e),
                        entries.len(),
                        d1.block.len()
                    ),
                ));
            }
        }
        let distinct: BTreeSet<&str> = t
            .string_row_counts()
            .keys()
            .copied()
            .filter(|s| !s.is_empty())
            .collect();
        let bound = 1 + distinct.iter().map(|s| s.len() + 1).sum::<usize>();
        if d1.block.len() > bound {
            return Err(Fail::new(
                format!("{st}:string-block-larger-than-distinct-strings"),
                format!(
                    "string block is {} bytes; the {} distinct non-empty strings need at most {bound}",
                    d1.block.len(),
                    distinct.len()
                ),
            ));
        }
    }

    // E3. independent decode of the written records against the model
    let am = t.atom_map();
    let kept: BTreeSet<String> = {
        let mut k = BTreeSet::new();
        for row in &t.rows {
            for (a, (fi, _, ty)) in am.iter().enumerate() {
                if *ty == Ty::Str && t.fields[*fi].arr.is_none() {
                    k.insert(t.str_of(row[a]).to_string());
                }
            }
        }
        k
    };
    let mut mask = false;
    for r in 0..n {
        for (a, (fi, ei, ty)) in am.iter().enumerate() {
            let got = d1.rows[r][a];
            let want = t.rows[r][a];
            match ty {
                Ty::Str => {
                    let want_s = t.str_of(want);
                    let in_array = t.fields[*fi].arr.is_some();
                    if mask && in_array && !want_s.is_empty() && !kept.contains(want_s) && got == 0 {
                        continue; // further elements lost by the same known defect
                    }
                    let got_s = dbcenc::resolve(d1.block, got as u32);
                    if got_s.as_deref() != Ok(want_s) {
                        if in_array && got == 0 && !want_s.is_empty() && !kept.contains(want_s) {
                            // build_string_block only looks at top-level Value::StringRef
                            soft(
                                ctx,
                                SIG_STR_ARRAY,
                                format!(
                                    "row {r} field {fi}[{ei}] (String array): model string {:?} was written as offset 0 (empty); it is {}in the written string block",
                                    truncate(want_s, 40),
                                    if entries.iter().any(|e| *e == want_s.as_bytes()) { "" } else { "not " }
                                ),
                            )?;
                            facts.str_array_defect = true;
                            mask = true;
                            continue;
                        }
                        return Err(Fail::new(
                            format!("{st}:independent-decode:string-differs"),
                            format!(
                                "row {r} field {fi}[{ei}]: written offset {got} → {:?}, expected {:?}",
                                got_s.map(|s| truncate(s, 60)),
                                truncate(want_s, 60)
                            ),
                        ));
                    }
                }
                Ty::Bool => {
                    if got != want {
                        return Err(Fail::new(
                            format!("{st}:independent-decode:value-differs:Bool"),
                            format!("row {r} field {fi}[{ei}]: written u32 {got}, expected {want}"),
                        ));
                    }
                }
                _ => {
                    if got != want {
                        return Err(Fail::new(
                            format!("{st}:independent-decode:value-differs:{}", ty.name()),
                            format!("row {r} field {fi}[{ei}] ({}): written {got}, expected {want}", ty.name()),
                        ));
                    }
                }
            }
        }
    }

    // E4. the written file must be accepted by the schema it was written with
    // (only the precisely characterised known defect is intercepted here; any other rejection
    // is reported by check_file below as `rewritten-file:eager:own-schema-rejected:*`. The
    // header's field_count is not judged by itself: the statement only asks that the file
    // parses back.)
    let cols = t.column_count();
    if h1.field_count as usize != cols && t.has_array() && h1.field_count as usize == t.fields.len() {
        let verdict = DbcParser::parse_bytes(&bytes1)
            .and_then(|p| p.with_schema(crate_schema(t)))
            .map(|_| ());
        if let Err(Error::SchemaValidation(m)) = verdict
            && m.starts_with("Field count mismatch")
        {
            soft(
                ctx,
                SIG_FIELD_COUNT,
                format!(
                    "schema has {} fields = {cols} columns with arrays expanded; DbcWriter wrote field_count {}; parsing the written file with the same schema fails: {m}",
                    t.fields.len(),
                    h1.field_count
                ),
            )?;
            facts.field_count_defect = true;
            // neutralise: put the column count Schema::validate expects into the header
            bytes1[8..12].copy_from_slice(&(cols as u32).to_le_bytes());
        }
    }

    // F. every access path on the written file
    check_file(ctx, st, &bytes1, t, if mask { Some(&kept) } else { None })?;

    // G. a history: the table is saved into a file that already holds something longer and is opened
    // without truncation (a preallocated / padded file, or an older table with more rows saved by
    // DbcWriter before). The writer rewinds and writes exactly its table; the old bytes stay behind the
    // string block; every access path must read the new table from that file.
    if t.tail.kind != 0 {
        let st = "rewritten-file-saved-over-longer-file";
        let path = ctx
            .dir
            .join(format!("h{}.dbc", FILE_NO.fetch_add(1, Ordering::Relaxed)));
        let res = (|| -> Result<Vec<u8>, Fail> {
            let save = |rs: &RecordSet, what: &str| -> CaseResult {
                let io = |e: std::io::Error| Fail::new(format!("{st}:scratch-io"), format!("{what}: {e}"));
                let f = std::fs::OpenOptions::new()
                    .write(true)
                    .create(true)
                    .truncate(false)
                    .open(&path)
                    .map_err(io)?;
                let mut out = std::io::BufWriter::new(f);
                {
                    let mut wtr = if t.writer_explicit_schema { DbcWriter::new(&mut out).with_schema(crate_schema(t)) } else { DbcWriter::new(&mut out) };
                    wtr.write_records(rs).map_err(|e| lib_err(st, what, &e))?;
                }
                std::io::Write::flush(&mut out).map_err(io)
            };
            let old: Vec<u8> = if t.tail.kind == 3 {
                let older = dbcenc::older_table(t, t.tail.len as usize);
                let ors = DbcParser::parse_bytes(&dbcenc::encode(&older))
                    .and_then(|p| p.with_schema(crate_schema(t)))
                    .and_then(|p| p.parse_records())
                    .map_err(|e| lib_err(st, "older-table-not-parsed", &e))?;
                save(&ors, "write_records-of-the-older-table-failed")?;
                std::fs::read(&path).expect("scratch read")
            } else {
                let mut old = match t.tail.kind {
                    1 => vec![0u8; written.len()],
                    _ => dbcenc::garbage(written.len(), 0x01d),
                };
                old.extend_from_slice(&dbcenc::pad_tail(t.tail, written.len()));
                std::fs::write(&path, &old).expect("scratch write");
                old
            };
            save(&rs0, "write_records-failed")?;
            let now = std::fs::read(&path).expect("scratch read");
            if old.len() <= written.len() {
                return Ok(now); // (cannot happen: the older file is longer by construction) judged like a fresh file
            }
            if now.len() != old.len() || now[..written.len()] != written[..] || now[written.len()..] != old[written.len()..] {
                return Err(Fail::new(
                    format!("{st}:write-depends-on-what-the-sink-held"),
                    format!(
                        "a {}-byte file, opened without truncation, after write_records of a table that takes {} bytes in an empty sink: {} bytes, {}",
                        old.len(),
                        written.len(),
                        now.len(),
                        if now.len() >= written.len() && now[..written.len()] == written[..] { "bytes behind the table changed" } else { "the table's bytes differ" }
                    ),
                ));
            }
            Ok(now)
        })();
        let _ = std::fs::remove_file(&path);
        let mut now = res?;
        if facts.field_count_defect {
            now[8..12].copy_from_slice(&(cols as u32).to_le_bytes());
        }
        check_file(ctx, st, &now, t, if mask { Some(&kept) } else { None })?;
    }
    Ok(facts)
}
