//! Generator side: compact `Params` (what proptest generates and shrinks) and the
//! deterministic builder `build(Params) -> Table`. Replay files hold the materialised `Table`,
//! so this module is not needed to re-run a saved case.

use crate::dbcenc::{Field, Layout, Table, Tail, Ty};
use proptest::prelude::*;

#[derive(Clone, Debug)]
pub enum PoolItem {
    Text(String),
    /// suffix of an earlier pool string (selector, number of leading chars to cut)
    SuffixOf(u16, u8),
    /// same text as an earlier pool string (a second pool entry with identical text)
    DupOf(u16),
    /// BOTH members of one pair of different strings that collide under a common 32-bit string hash
    /// (index into `COLLIDING_PAIRS`): a writer or reader that identifies strings by such a hash alone
    /// confuses them
    CollidingPair(u8),
}

/// Pairs of distinct strings with equal 32-bit hash under FNV-1a, FNV-1, djb2 (add / xor), sdbm, x31
/// (Java), Jenkins one-at-a-time, CRC-32 and MurmurHash3 (seed 0) — found by birthday search when the
/// check was written; three per function, plus two English-word FNV-1a pairs.
pub const COLLIDING_PAIRS: [(&str, &str); 29] = [
    ("omwmnrzq", "mroujnz"), ("vcuvl", "qnfzqncdg"), ("jrolhlw", "shzrfxdm"),
    ("fsfirsj", "fswjqtfv"), ("omobs", "temhbccz"), ("uqgohhmcw", "rkrxophjo"),
    ("rhdkna", "umeenrmnq"), ("jjkhd", "ncwofn"), ("qgfgz", "njtjfc"),
    ("ykmtgx", "upweahj"), ("yyvmzsw", "oemvbpf"), ("phrydebrm", "hibebk"),
    ("rwpqxcw", "iefacroo"), ("pxthhebb", "pjkjvpyvi"), ("hilxjwcat", "cqaslddh"),
    ("ilwtlvgvs", "mifdt"), ("xhkiubvd", "zkpeylrcs"), ("ubuydftu", "iumidbzh"),
    ("nsfgk", "sqmvie"), ("mlydy", "iqehy"), ("kmfgm", "ewepo"),
    ("zsadu", "vtvobx"), ("vjgoag", "dbagj"), ("ajkhsfhts", "pwhtgonlr"),
    ("aremq", "cciks"), ("gtqleko", "ghzima"), ("hdkads", "gsbel"),
    ("costarring", "liquid"), ("declinate", "macallums"),
];

#[derive(Clone, Debug)]
pub struct Params {
    /// (type selector 0..9, array length: 0 = scalar, 1..=8 = array)
    pub fields: Vec<(u8, u8)>,
    /// 0 = all nine types, 1 = 4-byte types only, 2 = narrow types favoured
    pub palette: u8,
    /// key position selector; the field at that position is forced to a scalar key type
    pub key: Option<u16>,
    /// key field type Int32 instead of UInt32 (excluded from the random volume by default)
    pub key_i32: bool,
    /// 0 = few values, duplicate-heavy, unsorted; 1 = sparse unsorted; 2 = full u32 range;
    /// 3 = ascending unique; 4 = descending unique
    pub key_mode: u8,
    pub n_rows: usize,
    pub row_seed: u64,
    pub pool: Vec<PoolItem>,
    /// 0 = uniform over the pool, 1 = heavy sharing (first two entries favoured), 2 = by row
    pub str_skew: u8,
    pub layout: (u8, bool, bool),
    pub writer_explicit_schema: bool,
    /// bytes behind the string block: (kind 0..=3, length parameter), see `dbcenc::Tail`
    pub tail: (u8, u16),
}

fn sm(mut z: u64) -> u64 {
    z = z.wrapping_add(0x9e3779b97f4a7c15);
    z = (z ^ (z >> 30)).wrapping_mul(0xbf58476d1ce4e5b9);
    z = (z ^ (z >> 27)).wrapping_mul(0x94d049bb133111eb);
    z ^ (z >> 31)
}

fn pick(sel: u16, len: usize) -> usize {
    if len == 0 { 0 } else { ((sel as usize) * len) >> 16 }
}

fn ty_of(sel: u8, palette: u8) -> Ty {
    match palette {
        1 => [Ty::I32, Ty::U32, Ty::F32, Ty::Str, Ty::Bool][sel as usize % 5],
        2 => [
            Ty::U8,
            Ty::I8,
            Ty::U16,
            Ty::I16,
            Ty::U8,
            Ty::I16,
            Ty::U32,
            Ty::Str,
            Ty::F32,
            Ty::Bool,
            Ty::I32,
        ][sel as usize % 11],
        _ => Ty::ALL[sel as usize % 9],
    }
}

pub fn resolve_pool(items: &[PoolItem]) -> Vec<String> {
    let mut out: Vec<String> = vec![];
    for it in items {
        let s = match it {
            PoolItem::CollidingPair(i) => {
                let (a, b) = COLLIDING_PAIRS[*i as usize % COLLIDING_PAIRS.len()];
                out.push(a.to_string());
                b.to_string()
            }
            PoolItem::Text(s) => s.replace('\0', "0"),
            PoolItem::SuffixOf(sel, cut) => {
                if out.is_empty() {
                    String::new()
                } else {
                    let host = &out[pick(*sel, out.len())];
                    let n = host.chars().count();
                    let c = if n == 0 { 0 } else { (*cut as usize) % (n + 1) };
                    host.chars().skip(c).collect()
                }
            }
            PoolItem::DupOf(sel) => {
                if out.is_empty() {
                    String::new()
                } else {
                    out[pick(*sel, out.len())].clone()
                }
            }
        };
        out.push(s);
    }
    if out.is_empty() {
        out.push(String::new());
    }
    out
}

fn atom_value(ty: Ty, h: u64, pool_len: usize, skew: u8, r: usize) -> i64 {
    let edge = (h >> 60) < 4; // a quarter of the atoms take a boundary value
    let e = ((h >> 52) & 0xFF) as usize;
    let v = h as u32;
    match ty {
        Ty::I32 => {
            if edge {
                [0i64, 1, -1, i32::MIN as i64, i32::MAX as i64, 256, -256][e % 7]
            } else {
                v as i32 as i64
            }
        }
        Ty::U32 => {
            if edge {
                [0i64, 1, u32::MAX as i64, 0x8000_0000, 0xFFFF, 0x1_0000][e % 6]
            } else {
                v as i64
            }
        }
        Ty::F32 => {
            if edge {
                // +0, -0, +inf, -inf, quiet NaN, signalling NaN, 1.0, smallest denormal, NaN with payload
                [
                    0u32, 0x8000_0000, 0x7F80_0000, 0xFF80_0000, 0x7FC0_0000, 0x7FA0_0000,
                    0x3F80_0000, 1, 0xFFC1_2345,
                ][e % 9] as i64
            } else {
                v as i64
            }
        }
        Ty::Str => {
            let i = match skew {
                1 => {
                    if (h >> 40) % 4 != 0 {
                        (v as usize) % pool_len.min(2)
                    } else {
                        (v as usize) % pool_len
                    }
                }
                2 => (r + (v as usize % 2)) % pool_len,
                _ => (v as usize) % pool_len,
            };
            i as i64
        }
        Ty::Bool => (v & 1) as i64,
        Ty::U8 => {
            if edge { [0i64, 255, 1, 128][e % 4] } else { (v & 0xFF) as i64 }
        }
        Ty::I8 => {
            if edge { [0i64, -1, -128, 127][e % 4] } else { (v as u8 as i8) as i64 }
        }
        Ty::U16 => {
            if edge { [0i64, 65535, 256, 255][e % 4] } else { (v & 0xFFFF) as i64 }
        }
        Ty::I16 => {
            if edge { [0i64, -1, -32768, 32767][e % 4] } else { (v as u16 as i16) as i64 }
        }
    }
}

pub fn build(p: &Params) -> Table {
    let mut fields: Vec<Field> = p
        .fields
        .iter()
        .map(|(t, a)| Field {
            ty: ty_of(*t, p.palette),
            arr: if *a == 0 { None } else { Some((*a as usize).min(8)) },
        })
        .collect();
    if fields.is_empty() {
        fields.push(Field { ty: Ty::U32, arr: None });
    }
    let key = p.key.map(|sel| pick(sel, fields.len()));
    if let Some(k) = key {
        fields[k] = Field {
            ty: if p.key_i32 { Ty::I32 } else { Ty::U32 },
            arr: None,
        };
    }
    let pool = resolve_pool(&p.pool);
    let n = p.n_rows;
    let mut rows = Vec::with_capacity(n);
    for r in 0..n {
        let mut row = vec![];
        let mut a = 0u64;
        for (fi, f) in fields.iter().enumerate() {
            for _ in 0..f.atoms() {
                let h = sm(p.row_seed ^ sm((r as u64) << 20 | a));
                let v = if Some(fi) == key {
                    let k: u64 = match p.key_mode {
                        0 => h % (n as u64 / 2 + 1),
                        1 => h % (4 * n as u64 + 4),
                        2 => h & 0xFFFF_FFFF,
                        3 => r as u64 * 3 + 1,
                        4 => (n - r) as u64 * 2,
                        // small magnitudes of both signs (as 32-bit patterns): …, -2, -1, 0, 1, 2, …
                        5 => (((r as i64 + 1) / 2) * if r % 2 == 0 { 1 } else { -1 }) as i32 as u32 as u64,
                        // both signs, unsorted, with duplicates
                        _ => ((h % (n as u64 + 2)) as i64 - (n as i64 / 2)) as i32 as u32 as u64,
                    };
                    // an Int32 key column stores the same 32-bit pattern, read as signed (may be negative)
                    if p.key_i32 { (k as u32) as i32 as i64 } else { (k & 0xFFFF_FFFF) as i64 }
                } else {
                    atom_value(f.ty, h, pool.len(), p.str_skew, r)
                };
                row.push(v);
                a += 1;
            }
        }
        rows.push(row);
    }
    let t = Table {
        fields,
        key,
        pool,
        rows,
        layout: Layout {
            mode: p.layout.0 % 4,
            junk: p.layout.1,
            empty_block: p.layout.2,
        },
        writer_explicit_schema: p.writer_explicit_schema,
        tail: match p.tail.0 % 4 {
            0 => Tail::default(),
            k => Tail { kind: k, len: p.tail.1.max(1) },
        },
    };
    debug_assert!(t.validate().is_ok(), "{:?}", t.validate());
    t
}

fn text() -> impl Strategy<Value = String> {
    prop_oneof![
        2 => Just(String::new()),
        6 => "[a-zA-Z0-9 _]{1,10}",
        3 => "[^\\x00]{1,8}",
        3 => "[à-ÿА-я一-龥😀-😏]{1,6}",
        1 => "[a-z]{100,400}",
        1 => "[ -~]{1,3}",
    ]
}

fn pool_item() -> impl Strategy<Value = PoolItem> {
    prop_oneof![
        12 => text().prop_map(PoolItem::Text),
        3 => (any::<u16>(), 0u8..12).prop_map(|(s, c)| PoolItem::SuffixOf(s, c)),
        2 => any::<u16>().prop_map(PoolItem::DupOf),
        1 => any::<u8>().prop_map(PoolItem::CollidingPair),
    ]
}

/// A file that is longer than the table it holds: 30 % of the random tables
fn tail() -> impl Strategy<Value = (u8, u16)> {
    prop_oneof![
        7 => Just((0u8, 0u16)),
        1 => proptest::sample::select(vec![2u16, 4, 8, 16, 64, 512, 4096]).prop_map(|a| (1u8, a)),
        1 => (1u16..200).prop_map(|n| (2u8, n)),
        1 => (1u16..30).prop_map(|n| (3u8, n)),
    ]
}

fn field() -> impl Strategy<Value = (u8, u8)> {
    (0u8..99, prop_oneof![7 => Just(0u8), 3 => 1u8..=8])
}

/// Row-count distribution of the main random volume
pub fn rows_small(max_rows: usize, tail: usize) -> BoxedStrategy<usize> {
    prop_oneof![
        1 => Just(0usize),
        1 => Just(1usize),
        4 => 2usize..10,
        6 => 10usize..=max_rows.max(10),
        // rare larger table (narrow schemas keep them cheap, see below)
        1 => max_rows..=tail.max(max_rows),
    ]
    .boxed()
}

/// Random tables. Tables with more than `max_rows` rows are narrowed to at most 8 columns;
/// `allow_i32_key` is the exclusion switch for the Int32-key finding (false = the random volume
/// only uses UInt32 keys).
pub fn params(rows: BoxedStrategy<usize>, max_rows: usize, allow_i32_key: bool) -> impl Strategy<Value = Params> {
    let nfields = prop_oneof![2 => 1usize..=4, 4 => 5usize..=12, 2 => 13usize..=24];
    (
        (
            nfields.prop_flat_map(|n| proptest::collection::vec(field(), n..=n)),
            prop_oneof![3 => Just(0u8), 1 => Just(1u8), 1 => Just(2u8)],
            proptest::option::weighted(0.7, any::<u16>()),
            if allow_i32_key { (0u8..4).boxed() } else { Just(1u8).boxed() },
            0u8..7,
        ),
        (
            rows,
            any::<u64>(),
            proptest::collection::vec(pool_item(), 1..=10),
            0u8..3,
            (0u8..4, proptest::bool::weighted(0.25), any::<bool>()),
            any::<bool>(),
            // 40 % of the tables have no array at all (the region where the rewritten file is
            // re-parsed strictly, without any header fix-up)
            proptest::bool::weighted(0.4),
            tail(),
        ),
    )
        .prop_map(
            move |((mut fields, palette, key, ki, key_mode), (n_rows, row_seed, pool, str_skew, layout, wes, no_arrays, tail))| {
                if no_arrays {
                    for f in fields.iter_mut() {
                        f.1 = 0;
                    }
                }
                if n_rows > max_rows {
                    // large tables: at most 8 columns
                    let mut cols = 0usize;
                    fields.retain(|f| {
                        cols += f.1.max(1) as usize;
                        cols <= 8
                    });
                    if fields.is_empty() {
                        fields.push((1, 0));
                    }
                }
                Params {
                    fields,
                    palette,
                    key,
                    key_i32: ki == 0,
                    key_mode,
                    n_rows,
                    row_seed,
                    pool,
                    str_skew,
                    layout,
                    writer_explicit_schema: wes,
                    tail,
                }
            },
        )
}

/// Helper for the deterministic grid
pub fn grid_params(fields: Vec<(Ty, u8)>, key: Option<usize>, n_rows: usize, seed: u64) -> Params {
    let nf = fields.len();
    Params {
        fields: fields
            .iter()
            .map(|(t, a)| (Ty::ALL.iter().position(|x| x == t).unwrap() as u8, *a))
            .collect(),
        palette: 0,
        // pick() maps the selector monotonically; choose the centre of the k-th bucket
        key: key.map(|k| (((2 * k + 1) * 65536) / (2 * nf)) as u16),
        key_i32: key.map(|k| fields[k].0 == Ty::I32).unwrap_or(false),
        key_mode: 0,
        n_rows,
        row_seed: seed,
        pool: vec![
            PoolItem::Text("Stormwind".into()),
            PoolItem::Text(String::new()),
            PoolItem::SuffixOf(0, 5),
            PoolItem::Text("Ünïcödé 名前 😀".into()),
            PoolItem::DupOf(0),
            PoolItem::Text("x".into()),
        ],
        str_skew: 0,
        layout: (0, false, false),
        writer_explicit_schema: true,
        tail: (0, 0),
    }
}
