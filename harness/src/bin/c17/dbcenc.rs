//! Independent WDBC model, encoder and decoder (the trusted base of C17).
//!
//! Written from the published WDBC layout, without calling into `wow-cdbc`:
//!   header  = "WDBC", record_count, field_count, record_size, string_block_size (5 × LE u32)
//!   records = record_count × record_size bytes, fields packed in schema order without padding
//!   strings = string_block_size bytes of NUL-terminated UTF-8, referenced by byte offset
//! `field_count` counts columns: an array field of n elements contributes n.

use serde_json::{Value, json};
use std::collections::BTreeMap;

#[derive(Clone, Copy, Debug, PartialEq, Eq, PartialOrd, Ord)]
pub enum Ty {
    I32,
    U32,
    F32,
    Str,
    Bool,
    U8,
    I8,
    U16,
    I16,
}

impl Ty {
    pub const ALL: [Ty; 9] = [
        Ty::I32,
        Ty::U32,
        Ty::F32,
        Ty::Str,
        Ty::Bool,
        Ty::U8,
        Ty::I8,
        Ty::U16,
        Ty::I16,
    ];
    pub fn size(self) -> usize {
        match self {
            Ty::I32 | Ty::U32 | Ty::F32 | Ty::Str | Ty::Bool => 4,
            Ty::U16 | Ty::I16 => 2,
            Ty::U8 | Ty::I8 => 1,
        }
    }
    pub fn name(self) -> &'static str {
        match self {
            Ty::I32 => "Int32",
            Ty::U32 => "UInt32",
            Ty::F32 => "Float32",
            Ty::Str => "String",
            Ty::Bool => "Bool",
            Ty::U8 => "UInt8",
            Ty::I8 => "Int8",
            Ty::U16 => "UInt16",
            Ty::I16 => "Int16",
        }
    }
    pub fn from_name(s: &str) -> Option<Ty> {
        Ty::ALL.iter().copied().find(|t| t.name() == s)
    }
}

#[derive(Clone, Debug, PartialEq, Eq)]
pub struct Field {
    pub ty: Ty,
    /// `Some(n)` = array of n elements (n ≥ 1)
    pub arr: Option<usize>,
}

impl Field {
    pub fn atoms(&self) -> usize {
        self.arr.unwrap_or(1)
    }
    pub fn size(&self) -> usize {
        self.ty.size() * self.atoms()
    }
}

/// How the *reference* file lays out its string block
#[derive(Clone, Debug, PartialEq, Eq)]
pub struct Layout {
    /// 0 = interned (each distinct string once), 1 = one private copy per reference
    /// (duplicates in the block), 2 = interned with suffix sharing (a string that is a suffix
    /// of another one points into it)
    pub mode: u8,
    /// append a string nobody references
    pub junk: bool,
    /// zero-length string block (only honoured when the schema has no string field)
    pub empty_block: bool,
}

/// Bytes that follow the string block in the file (the header describes the table exactly; the
/// file is longer than header + records + strings). Every parser accepts such a file
/// (`parse_layout` only asks that the table fits into the file); it is what is left when a table
/// is saved over an older, larger one in a file opened without truncation, or when a tool pads
/// files to an alignment.
#[derive(Clone, Copy, Debug, PartialEq, Eq, Default)]
pub struct Tail {
    /// 0 = none, 1 = zero padding up to the next multiple of `len`, 2 = `len` bytes of text-like
    /// garbage (letters, NULs, bytes that are not UTF-8), 3 = the end of an older table that had
    /// `len` more rows (and the strings they reference)
    pub kind: u8,
    pub len: u16,
}

impl Tail {
    pub fn name(&self) -> &'static str {
        match self.kind {
            0 => "none",
            1 => "zero-padding",
            2 => "garbage",
            _ => "older-larger-table",
        }
    }
}

/// A fully materialised table. One `i64` per atom, row-major, fields flattened in schema order:
/// I32/I8/I16 signed value, U32/U8/U16 unsigned value, F32 = raw bits, Bool = 0/1,
/// Str = index into `pool`.
#[derive(Clone, Debug)]
pub struct Table {
    pub fields: Vec<Field>,
    pub key: Option<usize>,
    pub pool: Vec<String>,
    pub rows: Vec<Vec<i64>>,
    pub layout: Layout,
    /// give the schema to `DbcWriter::with_schema` (true) or let it take the record set's (false)
    pub writer_explicit_schema: bool,
    /// bytes behind the string block (reference file) / what the file held before the table was
    /// saved into it (rewritten file)
    pub tail: Tail,
}

#[derive(Clone, Copy, Debug, PartialEq, Eq)]
pub struct Header {
    pub record_count: u32,
    pub field_count: u32,
    pub record_size: u32,
    pub string_block_size: u32,
}

impl Table {
    pub fn record_size(&self) -> usize {
        self.fields.iter().map(|f| f.size()).sum()
    }
    /// number of columns (arrays expanded)
    pub fn column_count(&self) -> usize {
        self.fields.iter().map(|f| f.atoms()).sum()
    }
    pub fn has_array(&self) -> bool {
        self.fields.iter().any(|f| f.arr.is_some())
    }
    pub fn has_str(&self) -> bool {
        self.fields.iter().any(|f| f.ty == Ty::Str)
    }
    pub fn has_str_array(&self) -> bool {
        self.fields
            .iter()
            .any(|f| f.ty == Ty::Str && f.arr.is_some())
    }
    pub fn mixes_widths(&self) -> bool {
        let mut sizes: Vec<usize> = self.fields.iter().map(|f| f.ty.size()).collect();
        sizes.sort();
        sizes.dedup();
        sizes.len() > 1
    }
    /// (field index, element index, type) of every atom in flattened order
    pub fn atom_map(&self) -> Vec<(usize, usize, Ty)> {
        let mut v = vec![];
        for (i, f) in self.fields.iter().enumerate() {
            for e in 0..f.atoms() {
                v.push((i, e, f.ty));
            }
        }
        v
    }
    /// flattened atom index of the first atom of field `fi`
    pub fn atom_start(&self, fi: usize) -> usize {
        self.fields[..fi].iter().map(|f| f.atoms()).sum()
    }
    pub fn str_of(&self, atom: i64) -> &str {
        &self.pool[atom as usize]
    }
    /// key of row r as the library's `Key` (u32); Int32 keys are generated non-negative
    pub fn key_of(&self, r: usize) -> Option<u32> {
        let k = self.key?;
        Some(self.rows[r][self.atom_start(k)] as u32)
    }
    /// every referenced string text → number of distinct rows that reference it
    pub fn string_row_counts(&self) -> BTreeMap<&str, usize> {
        let am = self.atom_map();
        let mut m: BTreeMap<&str, usize> = BTreeMap::new();
        for row in &self.rows {
            let mut seen: Vec<&str> = vec![];
            for (a, (_, _, ty)) in am.iter().enumerate() {
                if *ty == Ty::Str {
                    let s = self.str_of(row[a]);
                    if !seen.contains(&s) {
                        seen.push(s);
                    }
                }
            }
            for s in seen {
                *m.entry(s).or_insert(0) += 1;
            }
        }
        m
    }

    /// structural sanity of a table (used on replay input and on the builder's output)
    pub fn validate(&self) -> Result<(), String> {
        if self.fields.is_empty() {
            return Err("no fields".into());
        }
        for f in &self.fields {
            if f.arr == Some(0) {
                return Err("array of 0".into());
            }
        }
        if let Some(k) = self.key {
            let f = self.fields.get(k).ok_or("key out of range")?;
            if f.arr.is_some() || !(f.ty == Ty::U32 || f.ty == Ty::I32) {
                return Err("key field must be a scalar 32-bit integer".into());
            }
        }
        let am = self.atom_map();
        for row in &self.rows {
            if row.len() != am.len() {
                return Err("row width".into());
            }
            for (a, (fi, _, ty)) in am.iter().enumerate() {
                let v = row[a];
                let ok = match ty {
                    Ty::I32 => v >= i32::MIN as i64 && v <= i32::MAX as i64,
                    Ty::U32 | Ty::F32 => (0..=u32::MAX as i64).contains(&v),
                    Ty::Str => v >= 0 && (v as usize) < self.pool.len(),
                    Ty::Bool => v == 0 || v == 1,
                    Ty::U8 => (0..=255).contains(&v),
                    Ty::I8 => (-128..=127).contains(&v),
                    Ty::U16 => (0..=65535).contains(&v),
                    Ty::I16 => (-32768..=32767).contains(&v),
                };
                if !ok {
                    return Err(format!("atom {a} value {v} out of range for {}", ty.name()));
                }
            }
        }
        for s in &self.pool {
            if s.contains('\0') {
                return Err("NUL in string".into());
            }
        }
        if self.tail.kind > 3 || (self.tail.kind != 0 && self.tail.len == 0) {
            return Err("tail".into());
        }
        Ok(())
    }

    pub fn to_json(&self) -> Value {
        json!({
            "kind": "table",
            "fields": self.fields.iter().map(|f| json!({"ty": f.ty.name(), "arr": f.arr})).collect::<Vec<_>>(),
            "key": self.key,
            "pool": self.pool,
            "rows": self.rows,
            "layout": {"mode": self.layout.mode, "junk": self.layout.junk, "empty_block": self.layout.empty_block},
            "writer_explicit_schema": self.writer_explicit_schema,
            "tail": {"kind": self.tail.kind, "len": self.tail.len},
        })
    }

    pub fn from_json(v: &Value) -> Result<Table, String> {
        let fields = v["fields"]
            .as_array()
            .ok_or("fields")?
            .iter()
            .map(|f| {
                Ok(Field {
                    ty: Ty::from_name(f["ty"].as_str().ok_or("ty")?).ok_or("ty name")?,
                    arr: f["arr"].as_u64().map(|n| n as usize),
                })
            })
            .collect::<Result<Vec<_>, String>>()?;
        let pool = v["pool"]
            .as_array()
            .ok_or("pool")?
            .iter()
            .map(|s| s.as_str().map(|s| s.to_string()).ok_or("pool item".to_string()))
            .collect::<Result<Vec<_>, String>>()?;
        let rows = v["rows"]
            .as_array()
            .ok_or("rows")?
            .iter()
            .map(|r| {
                r.as_array()
                    .ok_or("row".to_string())?
                    .iter()
                    .map(|a| a.as_i64().ok_or("atom".to_string()))
                    .collect::<Result<Vec<_>, String>>()
            })
            .collect::<Result<Vec<_>, String>>()?;
        let t = Table {
            fields,
            key: v["key"].as_u64().map(|k| k as usize),
            pool,
            rows,
            layout: Layout {
                mode: v["layout"]["mode"].as_u64().unwrap_or(0) as u8,
                junk: v["layout"]["junk"].as_bool().unwrap_or(false),
                empty_block: v["layout"]["empty_block"].as_bool().unwrap_or(false),
            },
            writer_explicit_schema: v["writer_explicit_schema"].as_bool().unwrap_or(true),
            // replay files written before this dimension existed have no tail
            tail: Tail {
                kind: v["tail"]["kind"].as_u64().unwrap_or(0) as u8,
                len: v["tail"]["len"].as_u64().unwrap_or(0) as u16,
            },
        };
        t.validate()?;
        Ok(t)
    }
}

/// Build the reference string block; returns (block, offset per (row, atom) for Str atoms).
fn build_strings(t: &Table) -> (Vec<u8>, Vec<Vec<u32>>) {
    let am = t.atom_map();
    let mut offs: Vec<Vec<u32>> = t.rows.iter().map(|r| vec![0u32; r.len()]).collect();
    if !t.has_str() {
        let mut block = if t.layout.empty_block { vec![] } else { vec![0u8] };
        if t.layout.junk {
            block.extend_from_slice(b"unreferenced\0");
        }
        return (block, offs);
    }
    let mut block = vec![0u8];
    match t.layout.mode {
        3 => {
            // no leading empty string: the first distinct string sits at offset 0 (the crate's own unit-test
            // fixture looks like this); an empty string is referenced through the terminator of the first one
            block.clear();
            let mut distinct: Vec<&str> = vec![];
            for row in &t.rows {
                for (a, (_, _, ty)) in am.iter().enumerate() {
                    if *ty == Ty::Str {
                        let s = t.str_of(row[a]);
                        if !s.is_empty() && !distinct.contains(&s) {
                            distinct.push(s);
                        }
                    }
                }
            }
            let mut place: BTreeMap<&str, u32> = BTreeMap::new();
            for s in &distinct {
                place.insert(s, block.len() as u32);
                block.extend_from_slice(s.as_bytes());
                block.push(0);
            }
            if block.is_empty() {
                block.push(0);
                place.insert("", 0);
            } else {
                place.insert("", distinct[0].len() as u32);
            }
            for (r, row) in t.rows.iter().enumerate() {
                for (a, (_, _, ty)) in am.iter().enumerate() {
                    if *ty == Ty::Str {
                        offs[r][a] = place[t.str_of(row[a])];
                    }
                }
            }
        }
        1 => {
            // a private copy per reference
            for (r, row) in t.rows.iter().enumerate() {
                for (a, (_, _, ty)) in am.iter().enumerate() {
                    if *ty == Ty::Str {
                        let s = t.str_of(row[a]);
                        offs[r][a] = block.len() as u32;
                        block.extend_from_slice(s.as_bytes());
                        block.push(0);
                    }
                }
            }
        }
        mode => {
            // distinct strings in first-reference order
            let mut distinct: Vec<&str> = vec![];
            for row in &t.rows {
                for (a, (_, _, ty)) in am.iter().enumerate() {
                    if *ty == Ty::Str {
                        let s = t.str_of(row[a]);
                        if !s.is_empty() && !distinct.contains(&s) {
                            distinct.push(s);
                        }
                    }
                }
            }
            let mut place: BTreeMap<&str, u32> = BTreeMap::new();
            place.insert("", 0);
            if mode == 2 {
                // longest first; a later string that is a byte suffix of a placed one points into it
                let mut order = distinct.clone();
                order.sort_by(|a, b| b.len().cmp(&a.len()).then(a.cmp(b)));
                let mut placed: Vec<(&str, u32)> = vec![];
                for s in order {
                    let host = placed.iter().find(|(p, _)| p.as_bytes().ends_with(s.as_bytes()));
                    let off = match host {
                        Some((p, o)) => o + (p.len() - s.len()) as u32,
                        None => {
                            let o = block.len() as u32;
                            block.extend_from_slice(s.as_bytes());
                            block.push(0);
                            placed.push((s, o));
                            o
                        }
                    };
                    place.insert(s, off);
                }
            } else {
                for s in distinct {
                    place.insert(s, block.len() as u32);
                    block.extend_from_slice(s.as_bytes());
                    block.push(0);
                }
            }
            for (r, row) in t.rows.iter().enumerate() {
                for (a, (_, _, ty)) in am.iter().enumerate() {
                    if *ty == Ty::Str {
                        offs[r][a] = place[t.str_of(row[a])];
                    }
                }
            }
        }
    }
    if t.layout.junk {
        block.extend_from_slice("unreferenced ünused\0".as_bytes());
    }
    (block, offs)
}

/// Encode the reference file
pub fn encode(t: &Table) -> Vec<u8> {
    let (block, offs) = build_strings(t);
    let am = t.atom_map();
    let mut out = Vec::with_capacity(20 + t.rows.len() * t.record_size() + block.len());
    out.extend_from_slice(b"WDBC");
    out.extend_from_slice(&(t.rows.len() as u32).to_le_bytes());
    out.extend_from_slice(&(t.column_count() as u32).to_le_bytes());
    out.extend_from_slice(&(t.record_size() as u32).to_le_bytes());
    out.extend_from_slice(&(block.len() as u32).to_le_bytes());
    for (r, row) in t.rows.iter().enumerate() {
        for (a, (_, _, ty)) in am.iter().enumerate() {
            let v = row[a];
            match ty {
                Ty::I32 => out.extend_from_slice(&(v as i32).to_le_bytes()),
                Ty::U32 | Ty::F32 => out.extend_from_slice(&(v as u32).to_le_bytes()),
                Ty::Str => out.extend_from_slice(&offs[r][a].to_le_bytes()),
                Ty::Bool => out.extend_from_slice(&(v as u32).to_le_bytes()),
                Ty::U8 => out.push(v as u8),
                Ty::I8 => out.push(v as i8 as u8),
                Ty::U16 => out.extend_from_slice(&(v as u16).to_le_bytes()),
                Ty::I16 => out.extend_from_slice(&(v as i16).to_le_bytes()),
            }
        }
    }
    out.extend_from_slice(&block);
    out
}

/// The older, larger table of tail kind 3: the same schema, pool and layout, the same rows
/// followed by `extra` more rows (copies of existing rows whose string atoms point at other pool
/// entries; a row of zero atoms when the table is empty). It is only a source of bytes / a
/// history step, it is not judged itself.
pub fn older_table(t: &Table, extra: usize) -> Table {
    let am = t.atom_map();
    let mut o = t.clone();
    o.tail = Tail::default();
    let n = t.rows.len();
    for j in 0..extra.max(1) {
        let mut row = if n == 0 { vec![0i64; am.len()] } else { t.rows[j % n].clone() };
        for (a, (_, _, ty)) in am.iter().enumerate() {
            if *ty == Ty::Str {
                row[a] = ((row[a] as usize + 1 + j) % t.pool.len()) as i64;
            }
        }
        o.rows.push(row);
    }
    o
}

fn mix(mut z: u64) -> u64 {
    z = z.wrapping_add(0x9e3779b97f4a7c15);
    z = (z ^ (z >> 30)).wrapping_mul(0xbf58476d1ce4e5b9);
    z = (z ^ (z >> 27)).wrapping_mul(0x94d049bb133111eb);
    z ^ (z >> 31)
}

/// `len` bytes that look like the inside of some other file: letters, NULs, non-UTF-8 bytes
pub fn garbage(len: usize, salt: u64) -> Vec<u8> {
    (0..len)
        .map(|i| {
            let h = mix(salt ^ mix(i as u64));
            match h % 8 {
                0 => 0u8,
                1 => 0xFF,
                2 => 0xC3,
                _ => b'a' + ((h >> 8) % 26) as u8,
            }
        })
        .collect()
}

/// Tail kinds 1 and 2 for a file of `base_len` bytes (kind 3 needs the older table, see `reference_tail`)
pub fn pad_tail(tail: Tail, base_len: usize) -> Vec<u8> {
    match tail.kind {
        1 => {
            let a = tail.len.max(1) as usize;
            vec![0u8; a - base_len % a]
        }
        2 => garbage(tail.len.max(1) as usize, base_len as u64),
        _ => vec![],
    }
}

/// The bytes behind the string block of the reference file `exact` (= `encode(t)`)
pub fn reference_tail(t: &Table, exact: &[u8]) -> Vec<u8> {
    match t.tail.kind {
        0 => vec![],
        3 => {
            let old = encode(&older_table(t, t.tail.len as usize));
            old.get(exact.len()..).map(|x| x.to_vec()).unwrap_or_default()
        }
        _ => pad_tail(t.tail, exact.len()),
    }
}

pub fn read_header(b: &[u8]) -> Result<Header, String> {
    if b.len() < 20 {
        return Err(format!("{} bytes, shorter than a header", b.len()));
    }
    if &b[0..4] != b"WDBC" {
        return Err(format!("magic {:?}", &b[0..4]));
    }
    let w = |i: usize| u32::from_le_bytes(b[i..i + 4].try_into().unwrap());
    Ok(Header {
        record_count: w(4),
        field_count: w(8),
        record_size: w(12),
        string_block_size: w(16),
    })
}

pub struct Decoded<'a> {
    #[allow(dead_code)]
    pub header: Header,
    /// one i64 per atom like `Table::rows`, except Str atoms hold the byte offset and Bool
    /// atoms hold the raw u32
    pub rows: Vec<Vec<i64>>,
    pub block: &'a [u8],
}

/// Independent reader: slices the file by the header and decodes records by the schema
/// (ignores header.field_count on purpose; the caller judges it separately)
pub fn decode<'a>(b: &'a [u8], fields: &[Field]) -> Result<Decoded<'a>, String> {
    let h = read_header(b)?;
    let rs: usize = fields.iter().map(|f| f.size()).sum();
    if h.record_size as usize != rs {
        return Err(format!(
            "header record_size {} but the schema needs {}",
            h.record_size, rs
        ));
    }
    let n = h.record_count as usize;
    let rec_end = 20usize + n * rs;
    let end = rec_end + h.string_block_size as usize;
    if b.len() != end {
        return Err(format!(
            "file is {} bytes, header implies 20 + {}*{} + {} = {}",
            b.len(),
            n,
            rs,
            h.string_block_size,
            end
        ));
    }
    let mut rows = Vec::with_capacity(n);
    let mut p = 20usize;
    for _ in 0..n {
        let mut row = vec![];
        for f in fields {
            for _ in 0..f.atoms() {
                let v = match f.ty {
                    Ty::I32 => i32::from_le_bytes(b[p..p + 4].try_into().unwrap()) as i64,
                    Ty::U32 | Ty::F32 | Ty::Str | Ty::Bool => {
                        u32::from_le_bytes(b[p..p + 4].try_into().unwrap()) as i64
                    }
                    Ty::U8 => b[p] as i64,
                    Ty::I8 => b[p] as i8 as i64,
                    Ty::U16 => u16::from_le_bytes(b[p..p + 2].try_into().unwrap()) as i64,
                    Ty::I16 => i16::from_le_bytes(b[p..p + 2].try_into().unwrap()) as i64,
                };
                p += f.ty.size();
                row.push(v);
            }
        }
        rows.push(row);
    }
    Ok(Decoded {
        header: h,
        rows,
        block: &b[rec_end..end],
    })
}

/// Resolve a string offset inside a block
pub fn resolve(block: &[u8], off: u32) -> Result<&str, String> {
    let o = off as usize;
    if o >= block.len() {
        return Err(format!("offset {o} outside the {}-byte string block", block.len()));
    }
    let end = block[o..]
        .iter()
        .position(|&c| c == 0)
        .map(|i| o + i)
        .ok_or_else(|| format!("string at {o} is not terminated"))?;
    std::str::from_utf8(&block[o..end]).map_err(|e| format!("string at {o}: {e}"))
}

/// NUL-separated entries of a string block (`Err` when the last entry is unterminated)
pub fn block_entries(block: &[u8]) -> Result<Vec<&[u8]>, String> {
    if block.is_empty() {
        return Ok(vec![]);
    }
    if *block.last().unwrap() != 0 {
        return Err("string block does not end with NUL".into());
    }
    Ok(block[..block.len() - 1].split(|&c| c == 0).collect())
}

/// Self-test of encoder against decoder on a hand-written file (bytes spelled out here, so a
/// symmetric slip in both would still be seen)
pub fn self_check() -> Result<(), String> {
    let t = Table {
        fields: vec![
            Field { ty: Ty::U32, arr: None },
            Field { ty: Ty::U8, arr: Some(2) },
            Field { ty: Ty::Str, arr: None },
            Field { ty: Ty::I16, arr: None },
        ],
        key: Some(0),
        pool: vec!["ab".into(), "".into()],
        rows: vec![vec![7, 1, 255, 0, -2], vec![9, 0, 3, 1, 5]],
        layout: Layout { mode: 0, junk: false, empty_block: false },
        writer_explicit_schema: true,
        tail: Tail::default(),
    };
    let want: Vec<u8> = [
        b"WDBC".as_slice(),
        &[2, 0, 0, 0],
        &[5, 0, 0, 0],
        &[12, 0, 0, 0],
        &[4, 0, 0, 0],
        &[7, 0, 0, 0, 1, 255, 1, 0, 0, 0, 0xFE, 0xFF],
        &[9, 0, 0, 0, 0, 3, 0, 0, 0, 0, 5, 0],
        &[0, b'a', b'b', 0],
    ]
    .concat();
    let got = encode(&t);
    if got != want {
        return Err(format!("encoder self-check: {}", hex::encode(&got)));
    }
    let d = decode(&got, &t.fields)?;
    if d.rows != vec![vec![7, 1, 255, 1, -2], vec![9, 0, 3, 0, 5]] || d.block != [0, b'a', b'b', 0] {
        return Err("decoder self-check".into());
    }
    if resolve(d.block, 1)? != "ab" || resolve(d.block, 2)? != "b" || resolve(d.block, 0)? != "" {
        return Err("resolver self-check".into());
    }
    // suffix sharing
    let mut t2 = t.clone();
    t2.pool = vec!["xab".into(), "ab".into()];
    t2.layout.mode = 2;
    let b2 = encode(&t2);
    let d2 = decode(&b2, &t2.fields)?;
    if d2.block != [0, b'x', b'a', b'b', 0] || d2.rows[0][3] != 1 || d2.rows[1][3] != 2 {
        return Err("suffix-sharing self-check".into());
    }
    // bytes behind the string block: zero padding of the 48-byte file to a multiple of 32, and the
    // end of an older table with one more row (row 0 again, its string atom moved to pool[1] = "")
    let mut t3 = t.clone();
    t3.tail = Tail { kind: 1, len: 32 };
    if reference_tail(&t3, &got) != vec![0u8; 16] {
        return Err("zero-padding self-check".into());
    }
    t3.tail = Tail { kind: 3, len: 1 };
    let want_tail: Vec<u8> = vec![1, 255, 0, 0, 0, 0, 0xFE, 0xFF, 0, b'a', b'b', 0];
    if reference_tail(&t3, &got) != want_tail {
        return Err(format!("older-table tail self-check: {}", hex::encode(reference_tail(&t3, &got))));
    }
    Ok(())
}
