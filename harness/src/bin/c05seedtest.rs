// TEMPORARY driver for c05/seeds.rs (deleted when done)
#[path = "c05/seeds.rs"]
mod seeds;

use std::io::Cursor;
use std::panic::{AssertUnwindSafe, catch_unwind};

fn fnv(b: &[u8]) -> u64 {
    let mut h = 0xcbf29ce484222325u64;
    for x in b {
        h ^= *x as u64;
        h = h.wrapping_mul(0x100000001b3);
    }
    h
}

fn run(name: &str, f: impl FnOnce() -> Result<String, String>) -> String {
    match catch_unwind(AssertUnwindSafe(f)) {
        Ok(Ok(s)) => format!("{name}:Ok({s})"),
        Ok(Err(e)) => format!("{name}:Err({e})"),
        Err(p) => {
            let m = p.downcast_ref::<String>().cloned().or_else(|| p.downcast_ref::<&str>().map(|s| s.to_string())).unwrap_or_default();
            format!("{name}:PANIC({m})")
        }
    }
}

fn wdt_version(name: &str) -> wow_wdt::version::WowVersion {
    use wow_wdt::version::WowVersion as V;
    match name.split('-').next().unwrap_or("") {
        "classic" => V::Classic,
        "tbc" => V::TBC,
        "wotlk" => V::WotLK,
        "cata" => V::Cataclysm,
        "mop" => V::MoP,
        "wod" => V::WoD,
        "legion" => V::Legion,
        "bfa" => V::BfA,
        "sl" => V::Shadowlands,
        _ => V::Dragonflight,
    }
}

fn main() {
    let all = seeds::format_seeds();
    let again = seeds::format_seeds();
    std::panic::set_hook(Box::new(|_| {}));
    let same = all.len() == again.len() && all.iter().zip(&again).all(|(a, b)| a.bytes == b.bytes && a.name == b.name);
    println!("deterministic-within-process: {same}");
    let mut total = 0u64;
    let dump = std::env::var("SEED_DUMP").ok();
    for s in &all {
        if let Some(d) = &dump {
            std::fs::create_dir_all(d).unwrap();
            std::fs::write(format!("{d}/{}__{}", s.format, s.name), &s.bytes).unwrap();
        }
        total = total.wrapping_mul(31).wrapping_add(fnv(&s.bytes));
        let b = &s.bytes;
        let mut res: Vec<String> = vec![];
        match s.format {
            "m2" => {
                res.push(run("parse_m2", || {
                    wow_m2::parse_m2(&mut Cursor::new(b)).map_err(|e| e.to_string()).map(|f| {
                        let m = f.model();
                        format!(
                            "v{} bones{} verts{} tex{:?} anims{} chunked{}",
                            m.header.version,
                            m.bones.len(),
                            m.vertices.len(),
                            m.textures.iter().map(|t| String::from_utf8_lossy(&t.filename.string.data).to_string()).collect::<Vec<_>>(),
                            m.animations.len(),
                            m.skin_file_ids.is_some()
                        )
                    })
                }));
            }
            "skin" => {
                res.push(run("SkinFile::parse", || {
                    wow_m2::skin::SkinFile::parse(&mut Cursor::new(b)).map_err(|e| e.to_string()).map(|k| format!("new{} idx{} sub{} bat{}", k.is_new_format(), k.indices().len(), k.submeshes().len(), k.batches().len()))
                }));
                res.push(run("parse_skin", || wow_m2::skin::parse_skin(&mut Cursor::new(b)).map_err(|e| e.to_string()).map(|_| String::new())));
            }
            "anim" => {
                res.push(run("AnimFile::parse", || {
                    wow_m2::AnimFile::parse(&mut Cursor::new(b))
                        .map_err(|e| e.to_string())
                        .map(|a| format!("{:?} sections{} bones{:?}", a.format, a.sections.len(), a.sections.iter().map(|s| s.bone_animations.len()).collect::<Vec<_>>()))
                }));
            }
            "adt" => {
                res.push(run("parse_adt", || {
                    wow_adt::parse_adt(&mut Cursor::new(b)).map_err(|e| e.to_string()).map(|p| match &p {
                        wow_adt::ParsedAdt::Root(r) => format!("Root {:?} mcnk{} tex{} water{}", r.version, r.mcnk_chunks.len(), r.textures.len(), r.water_data.is_some()),
                        other => format!("{:?}", other.file_type()),
                    })
                }));
            }
            "wmo_root" | "wmo_group" => {
                res.push(run("parse_wmo", || {
                    wow_wmo::parse_wmo(&mut Cursor::new(b)).map_err(|e| e.to_string()).map(|p| match p {
                        wow_wmo::ParsedWmo::Root(r) => format!(
                            "Root mat{} grp{} tex{} portals{} lights{} dsets{} ddefs{} flags{:#x}",
                            r.materials.len(),
                            r.group_info.len(),
                            r.textures.len(),
                            r.portals.len(),
                            r.lights.len(),
                            r.doodad_sets.len(),
                            r.doodad_defs.len(),
                            r.flags
                        ),
                        wow_wmo::ParsedWmo::Group(g) => format!(
                            "Group v{} idx{} mopy{} batches{} bsp{} liq{} colors{} doodads{}",
                            g.vertex_positions.len(),
                            g.vertex_indices.len(),
                            g.material_info.len(),
                            g.render_batches.len(),
                            g.bsp_nodes.len(),
                            g.liquid_header.is_some(),
                            g.vertex_colors.len(),
                            g.doodad_refs.len()
                        ),
                    })
                }));
                if s.format == "wmo_root" {
                    res.push(run("WmoParser::parse_root", || {
                        wow_wmo::WmoParser::new().parse_root(&mut Cursor::new(b)).map_err(|e| e.to_string()).map(|r| format!("mat{} grp{} dd{}", r.materials.len(), r.groups.len(), r.doodad_defs.len()))
                    }));
                }
            }
            "blp" => {
                res.push(run("parse_blp", || {
                    wow_blp::parser::parse_blp(b).map_err(|e| e.to_string()).map(|i| format!("{:?} {}x{} mips{} images{}", i.header.version, i.header.width, i.header.height, i.header.has_mipmaps(), i.image_count()))
                }));
            }
            "dbc" => {
                res.push(run("DbcParser", || {
                    let p = wow_cdbc::DbcParser::parse_bytes(b).map_err(|e| format!("parse_bytes: {e}"))?;
                    let h = *p.header();
                    let rs = p.parse_records().map_err(|e| format!("parse_records: {e}"))?;
                    Ok(format!("{:?} rec{} fields{} recsize{} strblock{} parsed{}", p.version(), h.record_count, h.field_count, h.record_size, h.string_block_size, rs.len()))
                }));
            }
            "wdt" => {
                let ver = wdt_version(&s.name);
                res.push(run("WdtReader::read", || {
                    wow_wdt::WdtReader::new(Cursor::new(b), ver)
                        .read()
                        .map_err(|e| e.to_string())
                        .map(|w| format!("tiles{} mwmo{} modf{} maid{}", w.count_existing_tiles(), w.mwmo.is_some(), w.modf.as_ref().map(|m| m.entries.len()).unwrap_or(0), w.maid.is_some()))
                }));
            }
            "wdl" => {
                res.push(run("WdlParser::parse", || {
                    wow_wdl::parser::WdlParser::new().parse(&mut Cursor::new(b)).map_err(|e| e.to_string()).map(|w| {
                        format!("{:?} tiles{} holes{} wmo{}/{}/{} ml{}/{}", w.version, w.heightmap_tiles.len(), w.holes_data.len(), w.wmo_filenames.len(), w.wmo_indices.len(), w.wmo_placements.len(), w.m2_placements.len(), w.wmo_legion_placements.len())
                    })
                }));
            }
            other => res.push(format!("unknown format {other}")),
        }
        println!("{:10} {:48} {:6}  {}", s.format, s.name, b.len(), res.join(" | "));
    }
    let mut counts = std::collections::BTreeMap::new();
    for s in &all {
        *counts.entry(s.format).or_insert(0usize) += 1;
    }
    println!("counts: {counts:?}");
    println!("digest: {total:016x}");
}
