//! C01 — MPQ build→open round-trip returns every file bit-identically.
use serde_json::json;
use std::collections::BTreeMap;
use vcheck::engine::{self, pt, CaseResult, Check};
use vcheck::gens::mpq::*;
use vcheck::oracle::{lookup3, refcrypt};
use vcheck::vfail;
use wow_mpq::Archive;

fn err_kind(e: &wow_mpq::Error) -> String {
    let s = format!("{e:?}");
    let k: String = s.chars().take_while(|c| c.is_alphanumeric()).collect();
    k
}

fn storage(sector: usize, len: usize) -> &'static str {
    if len <= sector { "single" } else { "multi" }
}

fn tables(v: u8) -> &'static str {
    if v >= 3 { "hetbet" } else { "classic" }
}

/// names that were never added but are adversarial for the lookup structures
fn absent_names(spec: &ArchiveSpec, seed: u32) -> Vec<String> {
    let present: std::collections::BTreeSet<Vec<u8>> = spec
        .files
        .iter()
        .map(|f| refcrypt::fold(f.name.as_bytes()))
        .collect();
    let mut out: Vec<String> = vec![
        "never\\added.bin".into(),
        "zz".into(),
        format!("fresh_{seed:08x}.dat"),
    ];
    for f in spec.files.iter().take(6) {
        let n = &f.name;
        if n.is_ascii() && n.len() > 1 {
            out.push(n[..n.len() - 1].to_string());
            out.push(n[1..].to_string());
            out.push(format!("{n}x"));
            out.push(format!("x{n}"));
            // one-character edit in the middle
            let mut b = n.clone().into_bytes();
            let mid = b.len() / 2;
            b[mid] = if b[mid] == b'q' || b[mid] == b'Q' { b'r' } else { b'q' };
            out.push(String::from_utf8(b).unwrap());
        }
    }
    // collide with the hash-table start slot / HET 8-bit hash of the first added names
    let total = spec.files.len()
        + spec.listfile as usize
        + spec.has_attributes() as usize;
    let hsize = ((total * 2).max(16) as u32).next_power_of_two();
    for f in spec.files.iter().take(3) {
        let slot = refcrypt::hash_string(f.name.as_bytes(), 0) & (hsize - 1);
        let folded = refcrypt::fold(f.name.as_bytes());
        let (c, b) = lookup3::hashlittle2(&folded, 2, 1);
        let top = (((b as u64) << 32 | c as u64) >> 56) as u8;
        let mut found_slot = false;
        let mut found_het = false;
        for i in 0..4000u32 {
            let cand = format!("c{seed:x}_{i}.col");
            if !found_slot
                && refcrypt::hash_string(cand.as_bytes(), 0) & (hsize - 1) == slot
            {
                out.push(cand.clone());
                found_slot = true;
            }
            if !found_het && spec.version >= 3 {
                let fc = refcrypt::fold(cand.as_bytes());
                let (c2, b2) = lookup3::hashlittle2(&fc, 2, 1);
                if (((b2 as u64) << 32 | c2 as u64) >> 56) as u8 == top {
                    out.push(cand.clone());
                    found_het = true;
                }
            }
            if found_slot && (found_het || spec.version < 3) {
                break;
            }
        }
    }
    out.retain(|n| !present.contains(&refcrypt::fold(n.as_bytes())));
    out.retain(|n| !matches!(n.as_str(), "(listfile)" | "(attributes)" | "(signature)"));
    out
}

fn check_file(
    check: &Check,
    spec: &ArchiveSpec,
    ar: &mut Archive,
    i: usize,
    f: &FileSpec,
    origin: &str,
    cfg: &str,
) -> CaseResult {
    let sector = spec.sector();
        let want = spec.content(i);
        let st = storage(sector, want.len());
        let fclass = format!(
            "{origin}:{cfg}:{}:{:?}:{}:{}:{:?}",
            method_name(f.method),
            f.enc,
            f.len.class(sector),
            st,
            f.class
        );
        let nontrivial = want.len() > sector || f.enc != Enc::None || f.method != M_ZLIB;
        check.count(&fclass, nontrivial);
        check.sample(&format!("{}{:?}{}", method_name(f.method), f.enc, st), || {
            json!({"config": cfg, "name": f.name, "len": want.len(), "method": method_name(f.method), "enc": format!("{:?}", f.enc), "class": format!("{:?}", f.class)})
        });
        // root-cause oriented tag: codec family first, storage second
        let tag = format!("{}:{}", method_name(f.method), st);
        for sp in spellings(&f.name, f.seed) {
            let info = match engine::guard("Archive::find_file", || ar.find_file(&sp))? {
                Ok(Some(i)) => i,
                Ok(None) => vfail!(
                    format!("added-file-not-found:{}", tables(spec.version)),
                    "find_file({sp:?}) = None for added name {:?} — {}",
                    f.name,
                    spec.summary()
                ),
                Err(e) => vfail!(
                    format!("find-file-error:{}:{}", err_kind(&e), tables(spec.version)),
                    "find_file({sp:?}) failed: {e} — {}",
                    spec.summary()
                ),
            };
            if info.file_size as usize != want.len() {
                vfail!(
                    format!("reported-size-differs:{tag}"),
                    "find_file({sp:?}).file_size = {} but content length is {} — {}",
                    info.file_size,
                    want.len(),
                    spec.summary()
                );
            }
            let got = match engine::guard("Archive::read_file", || ar.read_file(&sp))? {
                Ok(g) => g,
                Err(e) => vfail!(
                    format!("read-error:{}:{tag}", err_kind(&e)),
                    "read_file({sp:?}) failed: {e} (len {}, class {:?}) — {}",
                    want.len(),
                    f.class,
                    spec.summary()
                ),
            };
            if is_lossy(f.method) {
                if got.len() != want.len() {
                    vfail!(
                        format!("lossy-length-differs:{tag}"),
                        "read_file({sp:?}) returned {} bytes, added {} — {}",
                        got.len(),
                        want.len(),
                        spec.summary()
                    );
                }
            } else if got != want {
                let nsec = want.len().div_ceil(sector);
                let sig = if st == "multi"
                    && got.len() == want.len() + 4 * (nsec + 1)
                    && got[4 * (nsec + 1)..] == want[..]
                {
                    format!("read-returns-sector-offset-table-plus-data:{:?}", f.enc)
                } else if got.len() != want.len() {
                    format!("read-length-differs:{tag}")
                } else {
                    format!("read-content-differs:{tag}")
                };
                let first = got.iter().zip(want.iter()).position(|(a, b)| a != b);
                vfail!(
                    sig,
                    "read_file({sp:?}) returned {} bytes, added {} bytes, first difference at {:?} (class {:?}) — {}",
                    got.len(),
                    want.len(),
                    first,
                    f.class,
                    spec.summary()
                );
            }
        }
    Ok(())
}

fn check_archive(check: &Check, spec: &ArchiveSpec, origin: &str) -> CaseResult {
    let dir = engine::scratch("c01");
    let path = dir.path().join("a.mpq");
    let sector = spec.sector();
    let cfg = format!(
        "V{}:sh{}:crc{}:at{:?}:lf{}:ct{}",
        spec.version,
        spec.shift.min(4),
        spec.effective_crcs() as u8,
        spec.attrs,
        spec.listfile as u8,
        spec.compress_tables as u8
    );

    let built = engine::guard("ArchiveBuilder::build", || spec.builder().build(&path))?;
    if let Err(e) = built {
        // an error is an allowed outcome; histogram it
        check.count(&format!("{origin}:build-err:{}:{cfg}", err_kind(&e)), false);
        check.bump(&format!("build_err:{}", err_kind(&e)), 1);
        return Ok(());
    }
    check.bump("archives_built", 1);

    let mut ar = match engine::guard("Archive::open", || Archive::open(&path))? {
        Ok(a) => a,
        Err(e) => vfail!(
            format!("open-fails-on-built-archive:{}:{}", err_kind(&e), tables(spec.version)),
            "Archive::open failed on an archive the builder just wrote: {e} — {}",
            spec.summary()
        ),
    };

    if spec.files.is_empty() {
        check.count(&format!("{origin}:empty:{cfg}"), false);
    }

    for (i, f) in spec.files.iter().enumerate() {
        if let Err(fl) = check_file(check, spec, &mut ar, i, f, origin, &cfg) {
            // a known finding must not hide the rest of the archive
            if check.is_known(&fl.signature) {
                check.known_hit(&fl.signature, &fl.message);
                continue;
            }
            return Err(fl);
        }
    }

    // listing
    if spec.listfile {
        let listed = match engine::guard("Archive::list", || ar.list())? {
            Ok(l) => l,
            Err(e) => vfail!(
                format!("list-error:{}", err_kind(&e)),
                "list() failed: {e} — {}",
                spec.summary()
            ),
        };
        let mut want: BTreeMap<String, Option<u64>> = BTreeMap::new();
        for (i, f) in spec.files.iter().enumerate() {
            want.insert(f.name.replace('/', "\\"), Some(spec.content(i).len() as u64));
        }
        want.insert("(listfile)".into(), None);
        if spec.has_attributes() {
            want.insert("(attributes)".into(), None);
        }
        let mut got: BTreeMap<String, u64> = BTreeMap::new();
        for e in &listed {
            if got.insert(e.name.clone(), e.size).is_some() {
                vfail!(
                    "listing-has-duplicate-name",
                    "list() returned {:?} twice — {}",
                    e.name,
                    spec.summary()
                );
            }
        }
        for (n, sz) in &want {
            match got.get(n) {
                None => vfail!(
                    if n.starts_with('(') {
                        format!("listing-misses-special:{n}")
                    } else {
                        "listing-misses-added-name".to_string()
                    },
                    "list() does not contain {n:?} — got {:?} — {}",
                    got.keys().collect::<Vec<_>>(),
                    spec.summary()
                ),
                Some(g) => {
                    if let Some(s) = sz {
                        if g != s {
                            vfail!(
                                "listing-size-differs",
                                "list() reports {n:?} size {g}, content length {s} — {}",
                                spec.summary()
                            );
                        }
                    }
                }
            }
        }
        for n in got.keys() {
            if !want.contains_key(n) {
                vfail!(
                    "listing-has-extra-name",
                    "list() contains {n:?} which was never added — {}",
                    spec.summary()
                );
            }
        }
        check.bump("listings_compared", 1);
    }

    // absent names
    let seed = spec.files.first().map(|f| f.seed).unwrap_or(7);
    for n in absent_names(spec, seed) {
        check.bump("absent_probes", 1);
        match engine::guard("Archive::find_file", || ar.find_file(&n))? {
            Ok(None) => {}
            Ok(Some(i)) => vfail!(
                format!("absent-name-resolves:{}", tables(spec.version)),
                "find_file({n:?}) resolved to block {} (size {}) although the name was never added — {}",
                i.block_index,
                i.file_size,
                spec.summary()
            ),
            Err(e) => vfail!(
                format!("absent-name-find-error:{}", err_kind(&e)),
                "find_file({n:?}) failed: {e}"
            ),
        }
        match engine::guard("Archive::read_file", || ar.read_file(&n))? {
            Err(wow_mpq::Error::FileNotFound(_)) => {}
            Err(e) => vfail!(
                format!("absent-name-read-wrong-error:{}", err_kind(&e)),
                "read_file({n:?}) of a never-added name failed with {e} instead of FileNotFound"
            ),
            Ok(d) => vfail!(
                format!("absent-name-reads:{}", tables(spec.version)),
                "read_file({n:?}) returned {} bytes although the name was never added — {}",
                d.len(),
                spec.summary()
            ),
        }
    }
    Ok(())
}

fn grid(tier_thorough: bool) -> Vec<ArchiveSpec> {
    let sizes: [LenSpec; 9] = [
        LenSpec { halves: 0, delta: 0 },
        LenSpec { halves: 0, delta: 3 },
        LenSpec { halves: 2, delta: -1 },
        LenSpec { halves: 2, delta: 0 },
        LenSpec { halves: 2, delta: 1 },
        LenSpec { halves: 4, delta: 0 },
        LenSpec { halves: 5, delta: 0 },
        LenSpec { halves: 8, delta: 3 },
        LenSpec { halves: 1, delta: 0 },
    ];
    let classes = [
        ContentClass::Text,
        ContentClass::Random,
        ContentClass::CompressibleHeadRandomTail,
        ContentClass::Constant,
    ];
    let mut v = vec![];
    let shifts: &[u16] = if tier_thorough { &[0, 3, 1] } else { &[0, 3] };
    for version in 1..=4u8 {
        for &shift in shifts {
            for &method in ALL_METHODS.iter() {
                for enc in [Enc::None, Enc::Key, Enc::FixKey] {
                    for crcs in [false, true] {
                        for (ci, class) in classes.iter().enumerate() {
                            if !tier_thorough && ci >= 2 && (crcs || enc == Enc::FixKey) {
                                continue;
                            }
                            let files = sizes
                                .iter()
                                .enumerate()
                                .map(|(i, l)| FileSpec {
                                    name: format!("Dir{}\\Sub/file_{i}.dat", ci),
                                    class: *class,
                                    len: *l,
                                    seed: 1000 + i as u32 + 17 * ci as u32,
                                    method,
                                    enc,
                                    locale: [0u16, 0x409, 0, 0x407][i % 4],
                                })
                                .collect();
                            v.push(ArchiveSpec {
                                version,
                                shift,
                                crcs,
                                attrs: Attrs::None,
                                listfile: true,
                                compress_tables: false,
                                table_method: M_ZLIB,
                                files,
                            });
                        }
                    }
                }
            }
        }
    }
    // largest configurable sector in the quantifier (shift 8 = 128 KiB), highly compressible content
    for version in [1u8, 4] {
        for class in [ContentClass::Constant, ContentClass::Text] {
            let files = [M_ZLIB, M_BZIP2, M_LZMA, M_SPARSE]
                .iter()
                .enumerate()
                .flat_map(|(i, &m)| {
                    [LenSpec { halves: 2, delta: 0 }, LenSpec { halves: 3, delta: 5 }]
                        .into_iter()
                        .enumerate()
                        .map(move |(j, len)| FileSpec {
                            name: format!("big\\{}_{i}_{j}.bin", method_name(m)),
                            class,
                            len,
                            seed: 3,
                            method: m,
                            enc: Enc::None,
                            locale: 0,
                        })
                })
                .collect();
            v.push(ArchiveSpec {
                version,
                shift: 8,
                crcs: false,
                attrs: Attrs::None,
                listfile: true,
                compress_tables: false,
                table_method: M_ZLIB,
                files,
            });
        }
    }
    // option grid on a fixed small file set
    for version in 1..=4u8 {
        for attrs in [Attrs::None, Attrs::Crc32, Attrs::Full, Attrs::CrcsThenNone, Attrs::FullThenNoCrcs, Attrs::Crc32ThenNoCrcs] {
            for listfile in [true, false] {
                for ct in [false, true] {
                    for tm in [M_ZLIB, M_BZIP2, M_LZMA] {
                        if !ct && tm != M_ZLIB {
                            continue;
                        }
                        let files = (0..5)
                            .map(|i| FileSpec {
                                name: format!("opt/{i}.txt"),
                                class: ContentClass::Text,
                                len: LenSpec { halves: i as u8, delta: 7 },
                                seed: i,
                                method: [M_ZLIB, M_NONE, M_BZIP2, M_ZLIB, M_LZMA][i as usize],
                                enc: [Enc::None, Enc::Key, Enc::None, Enc::FixKey, Enc::None][i as usize],
                                locale: 0,
                            })
                            .collect();
                        v.push(ArchiveSpec {
                            version,
                            shift: 0,
                            crcs: false,
                            attrs,
                            listfile,
                            compress_tables: ct,
                            table_method: tm,
                            files,
                        });
                    }
                }
            }
        }
    }
    v
}

fn main() {
    let (check, _args) = Check::new("C01", "exploration");
    check.set_rule(
        "archives generated by proptest: version V1..V4 × sector shift 0..8 (weighted to 0..3) × sector CRC × \
         attributes {none, CRC32, full, crcs-then-none} × listfile on/off × table compression × table method; \
         0..12 files (1 in 10 archives: 40..120 tiny files) with path names in mixed case/slashes, length classes \
         relative to the sector (0, 1..5, S−1, S, S+1, kS/2±2 …), 8 content classes (random, constant, periodic, sparse, \
         text, compressible-head/random-tail and mirror, low entropy), 12 method selectors, plain/encrypted/fix-key; \
         plus a deterministic grid version × shift{0,3} × method × enc × crc × 9 size classes × content. One evaluation = \
         one (archive, file) round trip under 5 spellings (plus listing and ≈20 absent-name probes per archive). \
         non-trivial = build succeeded and the file is larger than one sector, or encrypted, or uses a non-zlib selector; \
         distinct = config × method × enc × size class × single/multi × content class",
    );
    check.assume("lossy ADPCM selectors: only length is compared (bit identity is impossible by construction)");
    check.assume("logical duplicate names are not generated (a duplicate makes 'the' content of a name ambiguous); the builder rejects them with Err");
    check.assume("names avoid listfile-grammar characters (';', leading '#', surrounding blanks, CR/LF)");

    if let Some(p) = check.replay.clone() {
        let v: serde_json::Value =
            serde_json::from_str(&std::fs::read_to_string(&p).expect("replay file")).expect("json");
        let spec: ArchiveSpec = serde_json::from_value(v["case"].clone()).expect("case");
        if let Err(f) = check_archive(&check, &spec, "replay") {
            check.fail(&f, v["case"].clone());
        }
        check.count("replay-pad", true);
        check.finish();
    }

    // deterministic grid (seed independent)
    let g = grid(check.tier == engine::Tier::Thorough);
    let idx = std::sync::atomic::AtomicUsize::new(0);
    std::thread::scope(|s| {
        for _ in 0..engine::WORKERS {
            s.spawn(|| loop {
                let i = idx.fetch_add(1, std::sync::atomic::Ordering::SeqCst);
                if i >= g.len() {
                    break;
                }
                if let Err(f) = check_archive(&check, &g[i], "grid") {
                    check.fail(&f, serde_json::to_value(&g[i]).unwrap());
                }
            });
        }
    });
    check.set_extra("grid_archives", json!(g.len()));

    // random archives
    let n = check.tier.pick(16_000u32, 300_000);
    pt::run(
        &check,
        "c01-random",
        n,
        pt::Opts::default(),
        || archive_strategy(GenParams::full()),
        |spec| serde_json::to_value(spec).unwrap(),
        |spec| check_archive(&check, spec, "rnd"),
    );

    // essential classes reached?
    for (needle, what) in [
        ("grid:V1", "grid V1"),
        ("grid:V4", "grid V4"),
    ] {
        if check.classes_with_prefix(needle) == 0 {
            check.inconclusive(&format!("essential class empty: {what}"));
        }
    }
    if check.counter("archives_built") == 0 {
        check.inconclusive("no archive could be built");
    }
    check.finish();
}
