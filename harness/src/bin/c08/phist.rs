//! Part 4: histories over chains whose members hold *patch entries*. Parts 1 and 3 each cover one half
//! of the statement (histories over plain files; one read of a freshly built chain with patch entries);
//! here the two meet: add / remove / set-priority / clear / parallel add over archives that hold full
//! versions and FLAG_PATCH_FILE entries of the same names, with reads *between* the operations, so that
//! a read follows a change made below (or above) a patch entry that already served an earlier read.
//!
//! Oracle, per read of a name, from the member set the chain has *now*:
//!  * winner (highest priority holder, ties as in part 1) is a full file → exactly its bytes;
//!  * winner is a patch entry → an error, or the content that patch declares — and then that content must
//!    be derivable from the present chain: some full version held by a present member leads to the
//!    patch's base content through patch entries of present members (byte-wise linking, independent of
//!    order — the order-dependent part is judged by the differential below);
//!  * whatever the history, the answer equals the answer of a chain freshly built from the same members
//!    with the same priorities (only asked while all priorities are distinct, so that the order is defined).
use crate::apatch::{patch_entry, plain_entry, write_v1, Entry};
use crate::bspatch::{self as bp, RleOpts, Seek, Seg};
use crate::chain::{self, Op};
use crate::pcase::{self, Blob, Kind, PatchCase};
use proptest::prelude::*;
use serde::{Deserialize, Serialize};
use serde_json::json;
use std::collections::BTreeSet;
use std::path::{Path, PathBuf};
use vcheck::engine::{self, pt, Check, Fail};
use vcheck::gens::mpq::{ContentClass, ALL_CLASSES};
use wow_mpq::{Archive, ArchiveBuilder, ListfileOption, PatchChain};

/// the two logical names of a universe (indices into chain::POOL)
pub const NAMES: [usize; 2] = [1, 3];
pub const PRIOS: [i32; 7] = [-5, 0, 50, 100, 200, 250, 300];

#[derive(Clone, Debug, PartialEq, Eq, Serialize, Deserialize)]
pub enum Content {
    Blob(Blob),
    /// an edit of an earlier content (`of` < own index): a patch from `of` to this one is a BSD0 diff
    Edit { of: u8, segs: Vec<Seg>, rle: RleOpts },
}

#[derive(Clone, Copy, Debug, PartialEq, Eq, Serialize, Deserialize)]
pub enum Slot {
    Absent,
    Full { c: u8 },
    /// patch entry made for content `from`, producing content `to` (indices taken modulo the table)
    Patch { from: u8, to: u8, storage: u8, incl_header: bool },
}

#[derive(Clone, Debug, PartialEq, Eq, Serialize, Deserialize)]
pub struct PMember {
    pub slots: [Slot; 2],
    pub shift: u16,
    pub spell: u8,
    /// archives without patch entries: written by ArchiveBuilder (else by the independent V1 writer)
    pub builder: bool,
}

#[derive(Clone, Debug, PartialEq, Eq, Serialize, Deserialize)]
pub struct Step {
    pub op: Op,
    /// probe (read every name) after this operation
    pub read: bool,
}

#[derive(Clone, Debug, PartialEq, Eq, Serialize, Deserialize)]
pub struct PhCase {
    pub contents: Vec<Content>,
    pub members: Vec<PMember>,
    pub steps: Vec<Step>,
}

pub struct Universe {
    pub bytes: Vec<Vec<u8>>,
    /// first content index with the same bytes
    canon: Vec<usize>,
    pub paths: Vec<PathBuf>,
    pub slots: Vec<[Slot; 2]>,
    pub kinds: Vec<[&'static str; 2]>,
}

fn resolve(contents: &[Content]) -> Vec<Vec<u8>> {
    let mut out: Vec<Vec<u8>> = vec![];
    for (i, c) in contents.iter().enumerate() {
        let b = match c {
            Content::Blob(b) => b.bytes(),
            Content::Edit { of, segs, .. } => {
                if i == 0 {
                    vec![]
                } else {
                    bp::build_diff(&out[*of as usize % i], segs).new
                }
            }
        };
        out.push(b);
    }
    out
}

fn patch_bytes(contents: &[Content], bytes: &[Vec<u8>], from: usize, to: usize, incl_header: bool) -> (Vec<u8>, &'static str) {
    if let Content::Edit { of, segs, rle } = &contents[to] {
        if to > 0 && *of as usize % to == from {
            let pc = PatchCase { base: Blob { class: ContentClass::Text, len: 0, seed: 0 }, kind: Kind::Bsd0 { segs: segs.clone(), rle: *rle }, incl_header };
            let b = pc.build_on(bytes[from].clone());
            if b.new == bytes[to] {
                return (b.bytes, "BSD0");
            }
        }
    }
    (pcase::copy_patch_bytes(&bytes[from], &bytes[to], incl_header), "COPY")
}

fn stored_name(member: usize, k: usize, spell: u8) -> String {
    chain::spell(chain::POOL[NAMES[k]], spell.wrapping_add(k as u8), member as u32 * 31 + k as u32)
}

/// Write the member archives and make sure each one is healthy on its own. Err = reason to discard.
pub fn build(case: &PhCase, dir: &Path) -> Result<Universe, String> {
    if case.contents.is_empty() || case.members.is_empty() {
        return Err("empty universe".into());
    }
    let bytes = resolve(&case.contents);
    let n = bytes.len();
    let canon: Vec<usize> = (0..n).map(|i| (0..=i).find(|&j| bytes[j] == bytes[i]).unwrap()).collect();
    let mut u = Universe { bytes, canon, paths: vec![], slots: vec![], kinds: vec![] };
    for (i, m) in case.members.iter().enumerate() {
        let mut slots = [Slot::Absent; 2];
        let mut kinds = ["-"; 2];
        let mut plain: Vec<(String, Vec<u8>)> = vec![];
        let mut patches: Vec<(String, Vec<u8>, u8)> = vec![];
        for k in 0..2 {
            let stored = stored_name(i, k, m.spell);
            match m.slots[k] {
                Slot::Absent => {}
                Slot::Full { c } => {
                    let c = c as usize % n;
                    slots[k] = Slot::Full { c: c as u8 };
                    kinds[k] = "full";
                    plain.push((stored, u.bytes[c].clone()));
                }
                Slot::Patch { from, to, storage, incl_header } => {
                    let (from, to) = (from as usize % n, to as usize % n);
                    slots[k] = Slot::Patch { from: from as u8, to: to as u8, storage: storage % 3, incl_header };
                    let (pb, ty) = patch_bytes(&case.contents, &u.bytes, from, to, incl_header);
                    kinds[k] = ty;
                    patches.push((stored, pb, storage % 3));
                }
            }
        }
        let filler = (format!("filler\\member{i}.txt"), format!("filler of member {i}").into_bytes());
        let p = dir.join(format!("ph{i}.mpq"));
        let shift = m.shift % 4;
        if patches.is_empty() && m.builder {
            let mut b = ArchiveBuilder::new().listfile_option(ListfileOption::Generate);
            for (nm, d) in plain.iter().chain(std::iter::once(&filler)) {
                b = b.add_file_data(d.clone(), nm);
            }
            b.build(&p).map_err(|e| format!("build of member {i} failed: {e}"))?;
        } else {
            let mut listfile = String::new();
            for nm in plain.iter().map(|x| &x.0).chain(patches.iter().map(|x| &x.0)).chain(std::iter::once(&filler.0)) {
                listfile.push_str(nm);
                listfile.push_str("\r\n");
            }
            let mut entries: Vec<Entry> = vec![plain_entry("(listfile)", listfile.as_bytes())];
            for (nm, d) in &plain {
                entries.push(plain_entry(nm, d));
            }
            for (nm, pb, storage) in &patches {
                entries.push(patch_entry(nm, pb, *storage, shift));
            }
            entries.push(plain_entry(&filler.0, &filler.1));
            std::fs::write(&p, write_v1(&entries, shift)).map_err(|e| format!("write of member {i} failed: {e}"))?;
        }
        // health
        let mut a = Archive::open(&p).map_err(|e| format!("member {i} does not open: {e}"))?;
        for (nm, d) in &plain {
            match a.read_file(nm) {
                Ok(x) if x == *d => {}
                Ok(_) => return Err(format!("member {i}: {nm} reads back different bytes")),
                Err(e) => return Err(format!("member {i}: {nm} unreadable: {e}")),
            }
        }
        for (nm, _, _) in &patches {
            match a.find_file(nm) {
                Ok(Some(fi)) if fi.is_patch_file() => {}
                Ok(Some(_)) => return Err(format!("member {i}: {nm} is not seen as a patch entry")),
                other => return Err(format!("member {i}: {nm} not found: {:?}", other.map(|x| x.is_some()))),
            }
        }
        let listed: BTreeSet<String> = a.list().map_err(|e| format!("member {i}: list fails: {e}"))?.iter().map(|e| chain::fold(&e.name)).collect();
        for nm in plain.iter().map(|x| &x.0).chain(patches.iter().map(|x| &x.0)) {
            if !listed.contains(&chain::fold(nm)) {
                return Err(format!("member {i}: own listing lacks {nm}"));
            }
        }
        u.paths.push(p);
        u.slots.push(slots);
        u.kinds.push(kinds);
    }
    Ok(u)
}

// ---------------------------------------------------------------------------------------- model

#[derive(Clone, Debug)]
struct Mem {
    a: usize,
    prio: i32,
    added: u64,
    touched: u64,
}

#[derive(Clone, Debug, Default)]
struct Model {
    members: Vec<Mem>,
    clock: u64,
}

impl Model {
    fn pos(&self, a: usize) -> Option<usize> {
        self.members.iter().position(|m| m.a == a)
    }
    fn push(&mut self, a: usize, prio: i32) {
        self.clock += 1;
        let c = self.clock;
        self.members.push(Mem { a, prio, added: c, touched: c });
    }
    fn holders<'a>(&'a self, u: &Universe, k: usize) -> Vec<&'a Mem> {
        self.members.iter().filter(|m| u.slots[m.a][k] != Slot::Absent).collect()
    }
    /// same tie rule as part 1: among the top-priority holders, one loses only against a holder that
    /// precedes it both by insertion and by last re-prioritisation
    fn acceptable(&self, u: &Universe, k: usize) -> Vec<usize> {
        let holders = self.holders(u, k);
        let Some(top) = holders.iter().map(|m| m.prio).max() else {
            return vec![];
        };
        let tops: Vec<&&Mem> = holders.iter().filter(|m| m.prio == top).collect();
        tops.iter().filter(|c| !tops.iter().any(|d| d.a != c.a && d.added < c.added && d.touched < c.touched)).map(|c| c.a).collect()
    }
    /// contents (canonical indices) that can be reached from a full version held by a present member
    /// through patch entries of present members
    fn reachable(&self, u: &Universe, k: usize) -> BTreeSet<usize> {
        let mut reach: BTreeSet<usize> = BTreeSet::new();
        for m in self.holders(u, k) {
            if let Slot::Full { c } = u.slots[m.a][k] {
                reach.insert(u.canon[c as usize]);
            }
        }
        loop {
            let mut grew = false;
            for m in self.holders(u, k) {
                if let Slot::Patch { from, to, .. } = u.slots[m.a][k] {
                    if reach.contains(&u.canon[from as usize]) && reach.insert(u.canon[to as usize]) {
                        grew = true;
                    }
                }
            }
            if !grew {
                return reach;
            }
        }
    }
    fn has_full(&self, u: &Universe, k: usize) -> bool {
        self.holders(u, k).iter().any(|m| matches!(u.slots[m.a][k], Slot::Full { .. }))
    }
    fn distinct_priorities(&self) -> bool {
        let s: BTreeSet<i32> = self.members.iter().map(|m| m.prio).collect();
        s.len() == self.members.len()
    }
    /// (member, priority) of the holders of name k, highest first (ties: by member id — only compared for equality)
    fn stack(&self, u: &Universe, k: usize) -> Vec<(usize, i32)> {
        let mut v: Vec<(usize, i32)> = self.holders(u, k).iter().map(|m| (m.a, m.prio)).collect();
        v.sort_by(|x, y| y.1.cmp(&x.1).then(x.0.cmp(&y.0)));
        v
    }
}

fn err_kind(e: &wow_mpq::Error) -> String {
    format!("{e:?}").chars().take_while(|c| c.is_alphanumeric()).collect()
}

#[derive(Default, Debug)]
pub struct Report {
    pub fails: Vec<Fail>,
    pub max_members: usize,
    pub skipped_ops: usize,
    pub probes: u64,
    pub tie: bool,
    pub patched_ok: u64,
    pub patched_err: u64,
    pub fresh_compared: u64,
    /// a patch entry stayed the winner between two reads while the holders below/around it changed, and …
    pub bw_underivable: bool, // … its result is no longer derivable (earlier read was Ok)
    pub bw_derivable: bool, // … its result is still derivable (earlier read was Ok)
    pub err_then_derivable: bool, // … the earlier read failed and now a base is there
    pub bw_rederived_ok: bool, // bw_derivable and the second read was Ok again
    pub err_then_ok: bool,
    pub types: BTreeSet<&'static str>,
}

impl Report {
    fn push(&mut self, sig: String, msg: String) {
        if !self.fails.iter().any(|f| f.signature == sig) {
            self.fails.push(Fail::new(sig, msg));
        }
    }
    pub fn nontrivial(&self) -> bool {
        self.bw_underivable || self.bw_derivable || self.err_then_derivable
    }
}

struct LastRead {
    winner: usize,
    stack: Vec<(usize, i32)>,
    ok: bool,
}

struct Run<'a> {
    u: &'a Universe,
    model: Model,
    rep: Report,
    last: [Option<LastRead>; 2],
    earlier_ok: [Vec<Vec<u8>>; 2],
    probe_no: u64,
}

const P: &str = "chain-patch-history";

fn fresh_chain(u: &Universe, model: &Model, mode: u64) -> Result<PatchChain, String> {
    let mut list: Vec<&Mem> = model.members.iter().collect();
    match mode % 3 {
        0 => list.sort_by_key(|m| m.prio),
        1 => list.sort_by_key(|m| m.added),
        _ => {
            let args: Vec<(PathBuf, i32)> = list.iter().map(|m| (u.paths[m.a].clone(), m.prio)).collect();
            return PatchChain::from_archives_parallel(args).map_err(|e| format!("from_archives_parallel: {e}"));
        }
    }
    let mut c = PatchChain::new();
    for m in list {
        c.add_archive(&u.paths[m.a], m.prio).map_err(|e| format!("add_archive: {e}"))?;
    }
    Ok(c)
}

impl Run<'_> {
    fn probe(&mut self, chain: &mut PatchChain, after: &str) {
        let u = self.u;
        self.probe_no += 1;
        let mut fresh: Option<PatchChain> = None;
        if self.model.distinct_priorities() && !self.model.members.is_empty() {
            match engine::guard("fresh PatchChain", || fresh_chain(u, &self.model, self.probe_no)) {
                Ok(Ok(c)) => fresh = Some(c),
                Ok(Err(e)) => self.rep.push(format!("{P}:fresh-chain-of-valid-archives-not-built"), e),
                Err(f) => self.rep.push(f.signature, f.message),
            }
        }
        for k in 0..2 {
            let name = chain::POOL[NAMES[k]];
            let acc = self.model.acceptable(u, k);
            let holders = self.model.holders(u, k);
            if holders.iter().filter(|m| Some(m.prio) == holders.iter().map(|h| h.prio).max()).count() >= 2 {
                self.rep.tie = true;
            }
            let reach = self.model.reachable(u, k);
            let stack = self.model.stack(u, k);
            let single_patch_winner = match acc.as_slice() {
                [w] => match u.slots[*w][k] {
                    Slot::Patch { from, .. } => Some((*w, reach.contains(&u.canon[from as usize]))),
                    _ => None,
                },
                _ => None,
            };
            // what kind of step is this read, relative to the previous read of the name?
            let mut below_change = false;
            if let (Some((w, derivable)), Some(prev)) = (single_patch_winner, &self.last[k]) {
                if prev.winner == w && prev.stack != stack {
                    below_change = true;
                    match (prev.ok, derivable) {
                        (true, false) => self.rep.bw_underivable = true,
                        (true, true) => self.rep.bw_derivable = true,
                        (false, true) => self.rep.err_then_derivable = true,
                        (false, false) => {}
                    }
                }
            }
            let mut first_ok: Option<bool> = None;
            let spellings = [name.to_string(), name.to_ascii_uppercase().replace('\\', "/")];
            for (si, s) in spellings.iter().enumerate() {
                self.rep.probes += 1;
                let r = match engine::guard("chain::read_file(patch history)", || chain.read_file(s)) {
                    Ok(r) => r,
                    Err(f) => {
                        self.rep.push(f.signature, f.message);
                        continue;
                    }
                };
                if si == 0 {
                    first_ok = Some(r.is_ok());
                }
                let mut judged_bad = false;
                match (&r, acc.is_empty()) {
                    (Err(_), true) => {}
                    (Ok(d), true) => {
                        judged_bad = true;
                        self.rep.push(format!("{P}:read_file:absent-name-read"), format!("after {after}: {s:?} is held by no present member but read_file returned {} bytes; members {:?}", d.len(), self.model.members));
                    }
                    (Err(e), false) => {
                        let all_full = acc.iter().all(|&w| matches!(u.slots[w][k], Slot::Full { .. }));
                        if all_full {
                            judged_bad = true;
                            self.rep.push(
                                format!("{P}:read_file:full-file-winner-not-read:{}", err_kind(e)),
                                format!("after {after}: {s:?}: the highest-priority holder (member {acc:?}) has a full file, read_file fails: {e}; members {:?}", self.model.members),
                            );
                        } else if acc.iter().all(|&w| matches!(u.slots[w][k], Slot::Patch { .. })) {
                            self.rep.patched_err += 1;
                        }
                    }
                    (Ok(d), false) => {
                        let mut good = false;
                        let mut declared_but_underivable = false;
                        for &w in &acc {
                            match u.slots[w][k] {
                                Slot::Full { c } => good |= *d == u.bytes[c as usize],
                                Slot::Patch { from, to, .. } => {
                                    if *d == u.bytes[to as usize] {
                                        if reach.contains(&u.canon[from as usize]) {
                                            good = true;
                                        } else {
                                            declared_but_underivable = true;
                                        }
                                    }
                                }
                                Slot::Absent => {}
                            }
                        }
                        if good {
                            if acc.iter().all(|&w| matches!(u.slots[w][k], Slot::Patch { .. })) {
                                self.rep.patched_ok += 1;
                            }
                        } else {
                            judged_bad = true;
                            let seen_before = self.earlier_ok[k].iter().any(|x| x == d);
                            let why = if !self.model.has_full(u, k) { "no-full-version-in-chain" } else { "no-verified-path-from-a-full-version" };
                            let describe = format!(
                                "after {after}: {s:?}: read_file returned {} bytes (MD5 {}); holders now (member, priority) {stack:?} with slots {:?}; {}",
                                d.len(),
                                hex::encode(bp::md5(d)),
                                stack.iter().map(|(a, _)| u.slots[*a][k]).collect::<Vec<_>>(),
                                if seen_before { "the same bytes were returned by an earlier read of this history" } else { "these bytes were not returned before" }
                            );
                            if declared_but_underivable && seen_before {
                                self.rep.push(format!("{P}:read_file:stale-patched-result-of-earlier-chain-state:{why}"), describe);
                            } else if declared_but_underivable {
                                self.rep.push(format!("{P}:read_file:unverified-bytes-returned:{why}"), describe);
                            } else if seen_before {
                                self.rep.push(format!("{P}:read_file:result-of-earlier-chain-state-returned"), describe);
                            } else {
                                self.rep.push(format!("{P}:read_file:wrong-version-returned"), describe);
                            }
                        }
                    }
                }
                // history independence
                if let (Some(fc), false) = (fresh.as_mut(), judged_bad) {
                    if let Ok(fr) = engine::guard("fresh chain::read_file", || fc.read_file(s)) {
                        self.rep.fresh_compared += 1;
                        let diff = match (&r, &fr) {
                            (Ok(a), Ok(b)) if a == b => None,
                            (Err(_), Err(_)) => None,
                            (Ok(_), Ok(_)) => Some("different-bytes"),
                            (Ok(_), Err(_)) => Some("ok-where-fresh-chain-fails"),
                            (Err(_), Ok(_)) => Some("error-where-fresh-chain-reads"),
                        };
                        if let Some(dk) = diff {
                            self.rep.push(
                                format!("{P}:read_file:differs-from-fresh-chain-of-same-members:{dk}"),
                                format!(
                                    "after {after}: {s:?}: chain with this history answers {:?}, a chain freshly built from the same members {:?} answers {:?}",
                                    r.as_ref().map(|d| d.len()).map_err(|e| e.to_string()),
                                    self.model.members.iter().map(|m| (m.a, m.prio)).collect::<Vec<_>>(),
                                    fr.as_ref().map(|d| d.len()).map_err(|e| e.to_string())
                                ),
                            );
                        }
                    }
                }
                if let Ok(d) = r {
                    if !self.earlier_ok[k].iter().any(|x| *x == d) {
                        self.earlier_ok[k].push(d);
                    }
                }
                // the two cheap queries
                let c = chain.contains_file(s);
                if c == acc.is_empty() {
                    self.rep.push(format!("{P}:contains_file:{}", if c { "true-for-absent-name" } else { "false-for-present-name" }), format!("after {after}: contains_file({s:?}) = {c}, holders {stack:?}"));
                }
                match (chain.find_file_archive(s).map(|p| p.to_path_buf()), acc.is_empty()) {
                    (None, true) => {}
                    (Some(p), true) => self.rep.push(format!("{P}:find_file_archive:some-for-absent-name"), format!("after {after}: find_file_archive({s:?}) = {p:?}")),
                    (None, false) => self.rep.push(format!("{P}:find_file_archive:none-for-present-name"), format!("after {after}: find_file_archive({s:?}) = None, holders {stack:?}")),
                    (Some(p), false) => {
                        let a = u.paths.iter().position(|q| *q == p);
                        if !a.map(|a| acc.contains(&a)).unwrap_or(false) {
                            self.rep.push(format!("{P}:find_file_archive:wrong-archive"), format!("after {after}: find_file_archive({s:?}) names member {a:?}, acceptable {acc:?}; members {:?}", self.model.members));
                        }
                    }
                }
            }
            if let (Some(ok), true) = (first_ok, below_change) {
                if let (Some((_, derivable)), Some(prev)) = (single_patch_winner, &self.last[k]) {
                    if prev.ok && derivable && ok {
                        self.rep.bw_rederived_ok = true;
                    }
                    if !prev.ok && derivable && ok {
                        self.rep.err_then_ok = true;
                    }
                }
            }
            self.last[k] = match (single_patch_winner, first_ok) {
                (Some((w, _)), Some(ok)) => Some(LastRead { winner: w, stack, ok }),
                _ => None,
            };
        }
        // a name no member holds
        self.rep.probes += 1;
        if let Ok(Ok(d)) = engine::guard("chain::read_file(patch history)", || chain.read_file("no\\such\\file.xyz")) {
            self.rep.push(format!("{P}:read_file:absent-name-read"), format!("after {after}: a name held by no member was read ({} bytes)", d.len()));
        }
    }
}

/// Interpret the history against the real chain and the model.
pub fn run_history(u: &Universe, steps: &[Step]) -> Report {
    let mut run = Run { u, model: Model::default(), rep: Report::default(), last: [None, None], earlier_ok: [vec![], vec![]], probe_no: 0 };
    let mut chain = PatchChain::new();
    let nm = u.paths.len();
    for st in steps {
        let r: Result<(), Fail> = (|| {
            match st.op.clone() {
                Op::Add { a, prio } => {
                    let a = a as usize % nm;
                    if run.model.pos(a).is_some() {
                        run.rep.skipped_ops += 1;
                        return Ok(());
                    }
                    match engine::guard("chain::add_archive", || chain.add_archive(&u.paths[a], prio))? {
                        Ok(()) => run.model.push(a, prio),
                        Err(e) => run.rep.push(format!("{P}:add_archive:error-on-valid-archive"), format!("add_archive(member {a} {:?}, {prio}) fails: {e}", u.slots[a])),
                    }
                }
                Op::AddBatch { items, .. } => {
                    let mut batch: Vec<(usize, i32)> = vec![];
                    for (a, prio) in items {
                        let a = a as usize % nm;
                        if run.model.pos(a).is_none() && !batch.iter().any(|b| b.0 == a) {
                            batch.push((a, prio));
                        }
                    }
                    let args: Vec<(PathBuf, i32)> = batch.iter().map(|&(a, p)| (u.paths[a].clone(), p)).collect();
                    match engine::guard("chain::add_archives_parallel", || chain.add_archives_parallel(args))? {
                        Ok(()) => {
                            for (a, prio) in batch {
                                run.model.push(a, prio);
                            }
                        }
                        Err(e) => run.rep.push(format!("{P}:add_archives_parallel:error-on-valid-archives"), format!("{e}")),
                    }
                }
                Op::Remove { a } => {
                    let a = a as usize % nm;
                    let was = run.model.pos(a);
                    match engine::guard("chain::remove_archive", || chain.remove_archive(&u.paths[a]))? {
                        Ok(b) if b == was.is_some() => {}
                        Ok(b) => run.rep.push(format!("{P}:remove_archive:return-value"), format!("remove_archive(member {a}) = {b}, member present: {}", was.is_some())),
                        Err(e) => run.rep.push(format!("{P}:remove_archive:error"), format!("remove_archive(member {a}) fails: {e}")),
                    }
                    if let Some(p) = was {
                        run.model.members.remove(p);
                    }
                }
                Op::SetPriority { a, prio } => {
                    let a = a as usize % nm;
                    let r = engine::guard("chain::set_priority", || chain.set_priority(&u.paths[a], prio))?;
                    match (run.model.pos(a), r) {
                        (Some(p), Ok(())) => {
                            run.model.clock += 1;
                            run.model.members[p].prio = prio;
                            run.model.members[p].touched = run.model.clock;
                        }
                        (Some(_), Err(e)) => run.rep.push(format!("{P}:set_priority:error-for-member"), format!("set_priority(member {a}, {prio}) fails: {e}")),
                        (None, _) => {}
                    }
                }
                Op::Clear => {
                    engine::guard("chain::clear", || chain.clear())?;
                    run.model.members.clear();
                }
            }
            Ok(())
        })();
        if let Err(f) = r {
            run.rep.push(f.signature, f.message);
            return run.rep;
        }
        run.rep.max_members = run.rep.max_members.max(run.model.members.len());
        if chain.archive_count() != run.model.members.len() {
            run.rep.push(format!("{P}:archive_count"), format!("after {}: archive_count() = {}, model has {}", st.op.kind(), chain.archive_count(), run.model.members.len()));
        }
        if st.read {
            run.probe(&mut chain, st.op.kind());
        }
    }
    for k in u.kinds.iter().flatten() {
        if *k == "COPY" || *k == "BSD0" {
            run.rep.types.insert(k);
        }
    }
    run.rep
}

pub fn classify(case: &PhCase, rep: &Report) -> String {
    let kinds: BTreeSet<&str> = case.steps.iter().map(|s| s.op.kind()).collect();
    let reads = case.steps.iter().filter(|s| s.read).count();
    format!(
        "m{}:len{}:[{}]:reads-{}:types[{}]:members{}:tie{}:bw-u{}d{}e{}:again-ok{}:err-then-ok{}:pok{}perr{}",
        case.members.len(),
        match case.steps.len() {
            0..=4 => case.steps.len().to_string(),
            5..=8 => "5-8".into(),
            _ => "9+".into(),
        },
        kinds.into_iter().collect::<Vec<_>>().join(","),
        if reads == case.steps.len() { "all" } else if reads <= 1 { "last" } else { "some" },
        rep.types.iter().copied().collect::<Vec<_>>().join("+"),
        rep.max_members,
        rep.tie as u8,
        rep.bw_underivable as u8,
        rep.bw_derivable as u8,
        rep.err_then_derivable as u8,
        rep.bw_rederived_ok as u8,
        rep.err_then_ok as u8,
        (rep.patched_ok > 0) as u8,
        (rep.patched_err > 0) as u8
    )
}

/// one case: build the universe, run the history, count; returns the failures
pub fn run_case(check: &Check, case: &PhCase, origin: &str) -> Vec<Fail> {
    let dir = engine::scratch("c08h");
    let u = match build(case, dir.path()) {
        Ok(u) => u,
        Err(why) => {
            check.bump("patch_history_discarded_member_unhealthy", 1);
            check.sample("ph-discard", || json!({"discarded": why}));
            return vec![];
        }
    };
    let rep = run_history(&u, &case.steps);
    account(check, case, &rep, origin);
    rep.fails
}

fn account(check: &Check, case: &PhCase, rep: &Report, origin: &str) {
    check.count(&format!("{origin}:{}", classify(case, rep)), rep.nontrivial());
    check.bump("patch_history_probes", rep.probes);
    check.bump("patch_history_patched_reads_ok", rep.patched_ok);
    check.bump("patch_history_patched_reads_err", rep.patched_err);
    check.bump("patch_history_reads_compared_with_fresh_chain", rep.fresh_compared);
    check.bump("patch_history_ops_not_executed_duplicate_add", rep.skipped_ops as u64);
    for (on, key) in [(rep.bw_underivable, "underivable-after-ok"), (rep.bw_rederived_ok, "rederived-ok"), (rep.err_then_ok, "ok-after-err")] {
        if on {
            check.bump(&format!("patch_history_change_around_unchanged_patch_winner:{origin}:{key}"), 1);
        }
    }
    if origin != "ph" && origin != "replay" {
        for (on, key) in [
            (rep.bw_underivable, ESSENTIAL[0]),
            (rep.bw_rederived_ok, ESSENTIAL[1]),
            (rep.err_then_ok, ESSENTIAL[2]),
        ] {
            if on {
                check.bump(&format!("essential_history:{key}"), 1);
            }
        }
    }
    if rep.nontrivial() {
        check.sample(&format!("ph:{}{}{}", rep.bw_underivable as u8, rep.bw_derivable as u8, rep.err_then_derivable as u8), || json!({"kind": "patch-history", "case": case}));
    }
}

pub const ESSENTIAL: [&str; 3] = [
    "holders below an unchanged patch winner change between two reads so that the earlier (Ok) result is no longer derivable",
    "holders below an unchanged patch winner change between two reads, result still derivable and read Ok again",
    "a patched read fails, a base is supplied below the unchanged winner, the next read is Ok",
];

// --------------------------------------------------------------------------------------- grid

fn seg(add: u32, perturb: u16, extra: u32, seek: Seek) -> Seg {
    Seg { add, perturb, pseed: 11, extra, eseed: 13, seek }
}

/// The fixed universe of the grid and of the bounded-exhaustive part.
/// contents: 0 V0, 1 V1 = edit of V0, 2 V2, 3 V3 = edit of V2, 4 W0 (another base of V0's length), 5 U0, 6 U1.
/// members: 0 base {X: V0, Y: U0}; 1 {X: V0→V1}; 2 {X: V1→V2, Y: U1 full}; 3 {X: V2→V3, Y: U1→U0};
///          4 other base {X: W0}; 5 {X: W0→V1}
pub fn fixed_universe(variant: u8) -> (Vec<Content>, Vec<PMember>) {
    let blob = |class, len, seed| Content::Blob(Blob { class, len, seed });
    let rle = if variant % 2 == 0 { RleOpts::plain() } else { RleOpts { max_lit: 127, max_zero: 127, min_zero: 2, omit_trailing_zeros: true } };
    let contents = vec![
        blob(ContentClass::Text, 1000, 21),
        Content::Edit { of: 0, segs: vec![seg(500, 7, 5, Seek::None), seg(500, 0, 0, Seek::None)], rle },
        blob(ContentClass::Random, 600, 22),
        Content::Edit { of: 2, segs: vec![seg(100, 3, 10, Seek::Fwd(50)), seg(100, 0, 0, Seek::Back(120)), seg(200, 5, 3, Seek::None)], rle },
        blob(ContentClass::Text, 1000, 23),
        blob(ContentClass::Period, 300, 24),
        blob(ContentClass::Text, 2500, 25),
    ];
    let st = |k: u8| (variant + k) % 3;
    let incl = variant % 2 == 0;
    let p = |from, to, k| Slot::Patch { from, to, storage: st(k), incl_header: incl };
    let members = vec![
        PMember { slots: [Slot::Full { c: 0 }, Slot::Full { c: 5 }], shift: 3, spell: 0, builder: true },
        PMember { slots: [p(0, 1, 0), Slot::Absent], shift: variant as u16 % 3, spell: 1 + variant, builder: false },
        PMember { slots: [p(1, 2, 1), Slot::Full { c: 6 }], shift: (variant as u16 + 1) % 3, spell: 2 + variant, builder: false },
        PMember { slots: [p(2, 3, 2), p(6, 5, 0)], shift: (variant as u16 + 2) % 3, spell: 3 + variant, builder: false },
        PMember { slots: [Slot::Full { c: 4 }, Slot::Absent], shift: 3, spell: 4 + variant, builder: variant % 2 == 1 },
        PMember { slots: [p(4, 1, 1), Slot::Absent], shift: 0, spell: variant, builder: false },
    ];
    (contents, members)
}

/// home priorities of the fixed members
pub const HOME: [i32; 6] = [0, 100, 200, 300, -5, 50];

fn templates() -> Vec<(&'static str, Vec<(Op, bool)>)> {
    let a = |m: u8| Op::Add { a: m, prio: HOME[m as usize] };
    let ap = |m: u8, prio: i32| Op::Add { a: m, prio };
    let r = |m: u8| Op::Remove { a: m };
    let s = |m: u8, prio: i32| Op::SetPriority { a: m, prio };
    let b = |ms: &[u8]| Op::AddBatch { items: ms.iter().map(|&m| (m, HOME[m as usize])).collect(), bad: 255 };
    vec![
        ("base-removed", vec![(a(0), false), (a(1), true), (r(0), true)]),
        ("base-replaced", vec![(a(0), false), (a(1), true), (r(0), false), (ap(4, 0), true)]),
        ("intermediate-removed", vec![(a(0), false), (a(1), false), (a(2), true), (r(1), true)]),
        ("order-below-winner-changed", vec![(a(0), false), (a(1), false), (a(2), false), (a(3), true), (s(1, 250), true), (s(1, 100), true)]),
        ("remove-uncovers-other-base", vec![(a(4), false), (a(0), false), (a(1), true), (r(0), true)]),
        ("clear-and-readd-patch-only", vec![(a(0), false), (a(1), true), (Op::Clear, false), (a(1), true)]),
        ("error-then-base-added", vec![(a(1), true), (a(0), true)]),
        ("wrong-base-then-right-base", vec![(a(4), false), (a(1), true), (r(4), false), (a(0), true)]),
        ("other-lineage-then-broken", vec![(a(4), false), (a(5), false), (a(2), true), (r(5), false), (a(1), true)]),
        ("everything-below-replaced-still-derivable", vec![(a(0), false), (a(1), false), (a(2), true), (r(0), false), (a(4), false), (r(1), false), (a(5), true)]),
        ("base-moves-between-patches", vec![(a(0), false), (a(1), false), (a(2), true), (s(0, 150), true)]),
        ("parallel-add-remove-readd", vec![(b(&[0, 1, 2]), true), (r(1), true), (b(&[1]), true)]),
        ("base-raised-onto-patch-priority", vec![(a(0), false), (a(1), true), (s(0, 100), true), (s(0, 0), true)]),
        ("middle-of-three-removed-and-back", vec![(a(0), false), (a(1), false), (a(2), false), (a(3), true), (r(2), true), (a(2), true)]),
        ("base-lowered-below-other-base", vec![(a(4), false), (a(0), false), (a(1), true), (s(0, -50), true)]),
        ("winner-removed-and-back", vec![(a(0), false), (a(1), false), (a(2), true), (r(2), true), (a(2), true), (r(0), true)]),
    ]
}

pub fn grid() -> Vec<(String, PhCase)> {
    let mut v = vec![];
    for variant in 0..3u8 {
        let (contents, members) = fixed_universe(variant);
        for (label, ops) in templates() {
            for all_reads in [false, true] {
                let steps: Vec<Step> = ops.iter().map(|(op, read)| Step { op: op.clone(), read: *read || all_reads }).collect();
                v.push((format!("{label}:v{variant}:{}", if all_reads { "all" } else { "marked" }), PhCase { contents: contents.clone(), members: members.clone(), steps }));
            }
        }
    }
    v
}

/// alphabet of the bounded-exhaustive part: membership toggles at home priority are expressed as explicit
/// Add/Remove letters (an Add of a present member is skipped, a Remove of an absent one is a no-op),
/// two re-prioritisations that reorder the stack below the top, and Clear
fn alphabet() -> Vec<Op> {
    let mut v = vec![];
    for m in 0..6u8 {
        v.push(Op::Add { a: m, prio: HOME[m as usize] });
    }
    for m in [0u8, 1, 2, 4] {
        v.push(Op::Remove { a: m });
    }
    v.push(Op::SetPriority { a: 1, prio: 250 });
    v.push(Op::SetPriority { a: 0, prio: 150 });
    v.push(Op::Clear);
    v
}

pub fn exhaustive(check: &Check) {
    let maxlen = check.tier.pick(3usize, 4);
    let (contents, members) = fixed_universe(1);
    let base_case = PhCase { contents, members, steps: vec![] };
    let dir = engine::scratch("c08hx");
    let u = match build(&base_case, dir.path()) {
        Ok(u) => u,
        Err(why) => {
            check.inconclusive(&format!("fixed universe of the patch-history part is unhealthy: {why}"));
            return;
        }
    };
    // every history starts from the loaded stack base + two patches, read once
    let prefix = vec![Step { op: Op::AddBatch { items: vec![(0, HOME[0]), (1, HOME[1]), (2, HOME[2])], bad: 255 }, read: true }];
    let alpha = alphabet();
    let n = alpha.len() as u64;
    let mut offsets = vec![0u64];
    for l in 0..=maxlen {
        offsets.push(offsets[l] + n.pow(l as u32));
    }
    let all = *offsets.last().unwrap();
    let next = std::sync::atomic::AtomicU64::new(0);
    std::thread::scope(|sc| {
        for _ in 0..engine::WORKERS {
            sc.spawn(|| loop {
                let start = next.fetch_add(64, std::sync::atomic::Ordering::Relaxed);
                if start >= all {
                    break;
                }
                for idx in start..(start + 64).min(all) {
                    let l = (0..=maxlen).rev().find(|&l| idx >= offsets[l]).unwrap();
                    let mut r = idx - offsets[l];
                    let mut steps = prefix.clone();
                    for _ in 0..l {
                        steps.push(Step { op: alpha[(r % n) as usize].clone(), read: true });
                        r /= n;
                    }
                    let rep = run_history(&u, &steps);
                    let case = PhCase { contents: base_case.contents.clone(), members: base_case.members.clone(), steps };
                    account(check, &case, &rep, "ph-ex");
                    for f in &rep.fails {
                        check.fail(f, json!({"kind": "patch-history", "case": case}));
                    }
                }
            });
        }
    });
    check.set_extra("exhaustive_patch_histories", json!(all));
}

// ----------------------------------------------------------------------------------- strategies

fn content_strategy() -> impl Strategy<Value = Content> {
    let blob = (0usize..ALL_CLASSES.len(), prop_oneof![3 => 8u32..=300, 2 => 301u32..=2000, 1 => Just(1000u32)], any::<u32>()).prop_map(|(c, len, seed)| Content::Blob(Blob { class: ALL_CLASSES[c], len, seed }));
    let sg = (
        prop_oneof![4 => 1u32..=600, 1 => Just(128u32)],
        prop_oneof![2 => Just(0u16), 3 => 1u16..=50],
        any::<u32>(),
        0u32..=40,
        any::<u32>(),
        prop_oneof![4 => Just(Seek::None), 2 => (1u32..=100).prop_map(Seek::Fwd), 2 => (1u32..=100).prop_map(Seek::Back), 1 => Just(Seek::ToZero)],
    )
        .prop_map(|(add, perturb, pseed, extra, eseed, seek)| Seg { add, perturb, pseed, extra, eseed, seek });
    let edit = (0u8..8, proptest::collection::vec(sg, 1..=3), pcase::rle_strategy()).prop_map(|(of, segs, rle)| Content::Edit { of, segs, rle });
    prop_oneof![2 => blob, 3 => edit]
}

fn slot_strategy(patchy: u32) -> impl Strategy<Value = Slot> {
    prop_oneof![
        3 => Just(Slot::Absent),
        3 => (0u8..8).prop_map(|c| Slot::Full { c }),
        patchy => (0u8..8, prop_oneof![3 => Just(None), 1 => (0u8..8).prop_map(Some)], 0u8..3, any::<bool>()).prop_map(|(from, to, storage, incl_header)| Slot::Patch { from, to: to.unwrap_or(from + 1), storage, incl_header }),
    ]
}

fn step_strategy() -> impl Strategy<Value = Step> {
    let prio = || (0usize..PRIOS.len()).prop_map(|i| PRIOS[i]);
    let op = prop_oneof![
        5 => (0u8..8, prio()).prop_map(|(a, prio)| Op::Add { a, prio }),
        3 => (0u8..8).prop_map(|a| Op::Remove { a }),
        3 => (0u8..8, prio()).prop_map(|(a, prio)| Op::SetPriority { a, prio }),
        1 => Just(Op::Clear),
        1 => proptest::collection::vec((0u8..8, prio()), 1..=3).prop_map(|items| Op::AddBatch { items, bad: 255 }),
    ];
    (op, prop_oneof![3 => Just(true), 1 => Just(false)]).prop_map(|(op, read)| Step { op, read })
}

/// free universes (any slots) and coherent ones (a base, a patch lineage on top of it, another base),
/// loaded bottom-up before the random part of the history starts
pub fn case_strategy() -> impl Strategy<Value = PhCase> {
    let free = (
        proptest::collection::vec(content_strategy(), 2..=6),
        proptest::collection::vec((slot_strategy(6), slot_strategy(2), 0u16..=3, any::<u8>(), any::<bool>()), 2..=6),
        proptest::collection::vec(step_strategy(), 3..=14),
    )
        .prop_map(|(contents, ms, steps)| PhCase { contents, members: ms.into_iter().map(|(s0, s1, shift, spell, builder)| PMember { slots: [s0, s1], shift, spell, builder }).collect(), steps });
    let coherent = (
        proptest::collection::vec(content_strategy(), 3..=5),
        proptest::collection::vec((0u8..3, any::<bool>(), 0u16..=3, any::<u8>()), 5),
        proptest::collection::vec(step_strategy(), 2..=10),
        any::<bool>(),
    )
        .prop_map(|(mut contents, par, tail, batch)| {
            // content 0 is a blob (the base), the last content is the other base
            if let Content::Edit { .. } = contents[0] {
                contents[0] = Content::Blob(Blob { class: ContentClass::Text, len: 700, seed: 77 });
            }
            let n = contents.len();
            contents[n - 1] = Content::Blob(Blob { class: ContentClass::Text, len: 700, seed: 78 });
            // edits follow the lineage: content i is an edit of content i-1
            for i in 1..n - 1 {
                if let Content::Edit { of, .. } = &mut contents[i] {
                    *of = (i - 1) as u8;
                }
            }
            let mut members = vec![PMember { slots: [Slot::Full { c: 0 }, Slot::Full { c: (n - 1) as u8 }], shift: 3, spell: par[0].3, builder: par[0].1 }];
            for i in 1..n - 1 {
                let (storage, incl_header, shift, spell) = par[i];
                members.push(PMember { slots: [Slot::Patch { from: (i - 1) as u8, to: i as u8, storage, incl_header }, if i == 2 { Slot::Patch { from: (n - 1) as u8, to: 0, storage, incl_header } } else { Slot::Absent }], shift, spell, builder: false });
            }
            members.push(PMember { slots: [Slot::Full { c: (n - 1) as u8 }, Slot::Absent], shift: 3, spell: par[4].3, builder: par[4].1 });
            let k = members.len();
            let load: Vec<(u8, i32)> = (0..k - 1).map(|i| (i as u8, PRIOS[1 + i])).collect();
            let mut steps: Vec<Step> = if batch {
                vec![Step { op: Op::AddBatch { items: load, bad: 255 }, read: true }]
            } else {
                load.iter().enumerate().map(|(i, &(a, prio))| Step { op: Op::Add { a, prio }, read: i + 2 == k }).collect()
            };
            steps.extend(tail);
            PhCase { contents, members, steps }
        });
    prop_oneof![1 => free, 2 => coherent]
}

pub fn run_all(check: &Check) {
    for (label, case) in grid() {
        let fails = match engine::guard("patch-history", || run_case(check, &case, "ph-grid")) {
            Ok(f) => f,
            Err(f) => vec![f],
        };
        for f in fails {
            check.fail(&f, json!({"kind": "patch-history", "template": label, "case": case}));
        }
    }
    exhaustive(check);
    pt::run(
        check,
        "patch-history",
        check.tier.pick(640u32, 20_000),
        pt::Opts { max_shrink_iters: 300, ..Default::default() },
        case_strategy,
        |c| json!({"kind": "patch-history", "case": c}),
        |c| {
            let fails = run_case(check, c, "ph");
            let mut unknown: Vec<Fail> = vec![];
            for f in fails {
                if check.is_known(&f.signature) {
                    if !pt::suppressed() {
                        check.known_hit(&f.signature, &f.message);
                    }
                } else {
                    unknown.push(f);
                }
            }
            let pick = unknown.iter().position(|f| !check.already_reported(&f.signature)).unwrap_or(0);
            if unknown.is_empty() { Ok(()) } else { Err(unknown.swap_remove(pick)) }
        },
    );
    for key in ESSENTIAL {
        if check.counter(&format!("essential_history:{key}")) == 0 {
            check.inconclusive(&format!("no grid/exhaustive patch history of the class '{key}': vacuous for that class"));
        }
    }
    if check.counter("patch_history_patched_reads_ok") == 0 {
        check.inconclusive("no read through a patch entry succeeded in the patch-history part");
    }
    check.set_extra(
        "patch_history_reads",
        json!({
            "patched_ok": check.counter("patch_history_patched_reads_ok"),
            "patched_err": check.counter("patch_history_patched_reads_err"),
            "compared_with_fresh_chain": check.counter("patch_history_reads_compared_with_fresh_chain"),
        }),
    );
}
