//! Part 3: patch entries inside archives. The base archive is written by ArchiveBuilder; the
//! patch archives by a minimal independent V1 writer (refcrypt hashes/cipher) that can mark an
//! entry FLAG_PATCH_FILE and prefix it with a TPatchInfo record, stored as a raw single unit,
//! a zlib single unit, or zlib sectors behind a sector-offset table.
use crate::bspatch as bp;
use crate::pcase::{Blob, Kind, PatchCase};
use proptest::prelude::*;
use serde::{Deserialize, Serialize};
use serde_json::json;
use std::io::Write;
use vcheck::engine::{self, pt, CaseResult, Check, Fail};
use vcheck::gens::mpq::ContentClass;
use vcheck::oracle::refcrypt as rc;
use wow_mpq::{ArchiveBuilder, ListfileOption, PatchChain};

const F_COMPRESS: u32 = 0x0000_0200;
const F_PATCH: u32 = 0x0010_0000;
const F_SINGLE: u32 = 0x0100_0000;
const F_EXISTS: u32 = 0x8000_0000;

pub struct Entry {
    pub name: String,
    pub flags: u32,
    pub fsize: u32,
    pub stored: Vec<u8>,
}

pub fn write_v1(entries: &[Entry], shift: u16) -> Vec<u8> {
    let mut out = vec![0u8; 32];
    let n = (entries.len() * 2).next_power_of_two().max(4);
    let mut hash: Vec<[u32; 4]> = vec![[0xFFFF_FFFF, 0xFFFF_FFFF, 0xFFFF_FFFF, 0xFFFF_FFFF]; n];
    let mut blocks: Vec<[u32; 4]> = vec![];
    for e in entries {
        let pos = out.len() as u32;
        out.extend_from_slice(&e.stored);
        let bi = blocks.len() as u32;
        blocks.push([pos, e.stored.len() as u32, e.fsize, e.flags]);
        let nm = e.name.as_bytes();
        let mut i = (rc::hash_string(nm, rc::HASH_TABLE_OFFSET) as usize) & (n - 1);
        while hash[i][3] != 0xFFFF_FFFF {
            i = (i + 1) & (n - 1);
        }
        // locale 0, platform 0
        hash[i] = [rc::hash_string(nm, rc::HASH_NAME_A), rc::hash_string(nm, rc::HASH_NAME_B), 0, bi];
    }
    let hash_pos = out.len() as u32;
    let mut ht: Vec<u8> = hash.iter().flat_map(|e| e.iter().flat_map(|w| w.to_le_bytes())).collect();
    rc::encrypt_bytes(&mut ht, rc::hash_string(b"(hash table)", rc::HASH_FILE_KEY));
    out.extend(ht);
    let block_pos = out.len() as u32;
    let mut bt: Vec<u8> = blocks.iter().flat_map(|e| e.iter().flat_map(|w| w.to_le_bytes())).collect();
    rc::encrypt_bytes(&mut bt, rc::hash_string(b"(block table)", rc::HASH_FILE_KEY));
    out.extend(bt);
    let total = out.len() as u32;
    out[0..4].copy_from_slice(b"MPQ\x1A");
    out[4..8].copy_from_slice(&32u32.to_le_bytes());
    out[8..12].copy_from_slice(&total.to_le_bytes());
    out[12..14].copy_from_slice(&0u16.to_le_bytes());
    out[14..16].copy_from_slice(&shift.to_le_bytes());
    out[16..20].copy_from_slice(&hash_pos.to_le_bytes());
    out[20..24].copy_from_slice(&block_pos.to_le_bytes());
    out[24..28].copy_from_slice(&(n as u32).to_le_bytes());
    out[28..32].copy_from_slice(&(blocks.len() as u32).to_le_bytes());
    out
}

fn zlib(b: &[u8]) -> Vec<u8> {
    let mut e = flate2::write::ZlibEncoder::new(vec![0x02u8], flate2::Compression::new(6));
    e.write_all(b).unwrap();
    e.finish().unwrap()
}

/// storage: 0 raw single unit, 1 zlib single unit, 2 zlib sectors
pub fn patch_entry(name: &str, ptch: &[u8], storage: u8, shift: u16) -> Entry {
    let mut stored = vec![];
    stored.extend_from_slice(&28u32.to_le_bytes());
    stored.extend_from_slice(&0x8000_0000u32.to_le_bytes());
    stored.extend_from_slice(&(ptch.len() as u32).to_le_bytes());
    stored.extend_from_slice(&bp::md5(ptch));
    let mut flags = F_EXISTS | F_PATCH;
    match storage % 3 {
        0 => {
            flags |= F_SINGLE;
            stored.extend_from_slice(ptch);
        }
        1 => {
            flags |= F_SINGLE | F_COMPRESS;
            stored.extend(zlib(ptch));
        }
        _ => {
            flags |= F_COMPRESS;
            let ss = 512usize << shift;
            let secs: Vec<Vec<u8>> = ptch.chunks(ss).map(zlib).collect();
            let tsize = (secs.len() + 1) * 4;
            let mut o = tsize;
            let mut tab = vec![];
            tab.extend_from_slice(&(o as u32).to_le_bytes());
            for s in &secs {
                o += s.len();
                tab.extend_from_slice(&(o as u32).to_le_bytes());
            }
            stored.extend(tab);
            for s in secs {
                stored.extend(s);
            }
        }
    }
    Entry { name: name.to_string(), flags, fsize: ptch.len() as u32, stored }
}

pub fn plain_entry(name: &str, data: &[u8]) -> Entry {
    Entry { name: name.to_string(), flags: F_EXISTS | F_SINGLE, fsize: data.len() as u32, stored: data.to_vec() }
}

#[derive(Clone, Copy, Debug, PartialEq, Eq, Serialize, Deserialize)]
pub enum Scenario {
    /// base + patches, everything consistent
    Plain,
    /// the first patch was made for another base of the same length
    WrongBase,
    /// no archive holds a full version of the file
    NoBase,
    /// a full file in an archive above all patches
    FullFileOnTop,
    /// one payload byte of the top patch is flipped inside the archive
    CorruptPayload { off: u32 },
    /// an archive *below* the full file still carries the patch that once produced it
    StalePatchBelowBase,
}

#[derive(Clone, Debug, PartialEq, Eq, Serialize, Deserialize)]
pub struct Step {
    pub kind: Kind,
    pub incl_header: bool,
    pub storage: u8,
}

#[derive(Clone, Debug, PartialEq, Eq, Serialize, Deserialize)]
pub struct ArchCase {
    pub base: Blob,
    pub steps: Vec<Step>,
    pub shift: u16,
    pub name: u8,
    pub scenario: Scenario,
    /// priorities of base and patch archive (single-step plain cases only): 0 distinct; 1 equal,
    /// patch archive added first (it wins the tie and is applied on the base added after it);
    /// 2 distinct at first, then the base is raised onto the patch archive's priority
    #[serde(default)]
    pub tie: u8,
    /// COPY steps: the new content's length is adjusted so that the PTCH stream fills `align` whole sectors
    /// exactly (0 = as generated)
    #[serde(default)]
    pub align: u8,
}

pub fn run(check: &Check, case: &ArchCase, origin: &str) -> CaseResult {
    let dir = engine::scratch("c08a");
    let name = crate::chain::POOL[case.name as usize % crate::chain::POOL.len()];
    let base = case.base.bytes();
    let mut cur = base.clone();
    let mut members: Vec<(std::path::PathBuf, i32)> = vec![];
    if case.scenario != Scenario::NoBase {
        let p = dir.path().join("base.mpq");
        let r = ArchiveBuilder::new()
            .listfile_option(ListfileOption::Generate)
            .add_file_data(base.clone(), name)
            .add_file_data(b"unrelated".to_vec(), "other.txt")
            .build(&p);
        if r.is_err() {
            check.bump("archive_patch_discarded", 1);
            return Ok(());
        }
        members.push((p, 0));
    }
    if case.scenario == Scenario::StalePatchBelowBase {
        let older = Blob { class: ContentClass::Text, len: 50, seed: 99 };
        let pc = PatchCase { base: older, kind: Kind::Copy { new: case.base }, incl_header: true };
        let b = pc.build();
        let listfile = format!("{name}\r\n");
        let arch = write_v1(&[plain_entry("(listfile)", listfile.as_bytes()), patch_entry(name, &b.bytes, 0, case.shift)], case.shift);
        let p = dir.path().join("patch-0.mpq");
        std::fs::write(&p, arch).expect("write patch archive");
        members.push((p, -50));
    }
    let mut declared_after = [0u8; 16];
    let mut types = vec![];
    for (k, st) in case.steps.iter().enumerate() {
        let mut on = cur.clone();
        if k == 0 && case.scenario == Scenario::WrongBase {
            if on.is_empty() {
                check.bump("archive_patch_discarded", 1);
                return Ok(());
            }
            let i = on.len() / 2;
            on[i] ^= 0x55;
        }
        let mut pc = PatchCase { base: case.base, kind: st.kind.clone(), incl_header: st.incl_header };
        if case.align > 0 {
            if let Kind::Copy { new } = &mut pc.kind {
                let overhead = PatchCase { base: case.base, kind: Kind::Copy { new: Blob { len: 0, ..*new } }, incl_header: st.incl_header }.build_on(on.clone()).bytes.len();
                new.len = ((case.align as usize * (512usize << case.shift)).max(overhead) - overhead) as u32;
                check.bump("archive_patch_stream_fills_whole_sectors", 1);
            }
        }
        let b = pc.build_on(on);
        types.push(if pc.is_bsd0() { "BSD0" } else { "COPY" });
        let mut ptch = b.bytes.clone();
        if let Scenario::CorruptPayload { off } = case.scenario {
            if k + 1 == case.steps.len() && ptch.len() > bp::HEADER_LEN {
                let o = bp::HEADER_LEN + off as usize % (ptch.len() - bp::HEADER_LEN);
                ptch[o] ^= 0x01;
            }
        }
        declared_after = b.ptch.md5_after;
        cur = b.new;
        let stored_name = crate::chain::spell(name, case.name / 6 + k as u8, 5);
        let listfile = format!("{stored_name}\r\n");
        let arch = write_v1(&[plain_entry("(listfile)", listfile.as_bytes()), patch_entry(&stored_name, &ptch, st.storage, case.shift)], case.shift);
        let p = dir.path().join(format!("patch-{}.mpq", k + 1));
        std::fs::write(&p, arch).expect("write patch archive");
        members.push((p, 100 * (k as i32 + 1)));
    }
    let top_content = b"full file shipped by the newest archive".to_vec();
    if case.scenario == Scenario::FullFileOnTop {
        let p = dir.path().join("top.mpq");
        if ArchiveBuilder::new().listfile_option(ListfileOption::Generate).add_file_data(top_content.clone(), name).build(&p).is_err() {
            check.bump("archive_patch_discarded", 1);
            return Ok(());
        }
        members.push((p, 1000));
    }
    let tie = if case.scenario == Scenario::Plain && case.steps.len() == 1 && members.len() == 2 { case.tie % 3 } else { 0 };
    if tie == 1 {
        let top = members[1].1;
        members[0].1 = top;
    }
    let mut chain = PatchChain::new();
    // insertion order must not matter: newest first
    for (p, prio) in members.iter().rev() {
        if let Err(e) = engine::guard("chain::add_archive", || chain.add_archive(p, *prio))? {
            return Err(Fail::new("chain-patch:add_archive-rejects-archive-with-patch-entry", format!("{e}")));
        }
    }
    if tie == 2 {
        let (base_path, top) = (members[0].0.clone(), members[1].1);
        if let Err(e) = engine::guard("chain::set_priority", || chain.set_priority(&base_path, top))? {
            return Err(Fail::new("chain:set_priority:error-for-member", format!("{e}")));
        }
    }
    if tie != 0 {
        check.bump(&format!("archive_patch_base_ties_with_patch_archive:mode{tie}"), 1);
    }
    let probe = name.to_ascii_uppercase();
    let r = engine::guard("chain::read_file(patch entry)", || chain.read_file(&probe))?;
    let scen = match case.scenario {
        Scenario::Plain => "plain",
        Scenario::WrongBase => "wrong-base",
        Scenario::NoBase => "no-base",
        Scenario::FullFileOnTop => "full-file-on-top",
        Scenario::CorruptPayload { .. } => "corrupt-payload",
        Scenario::StalePatchBelowBase => "stale-patch-below-base",
    };
    let storage: Vec<&str> = case.steps.iter().map(|s| ["raw", "zlib", "sectors"][s.storage as usize % 3]).collect();
    let outcome = if r.is_ok() { "ok" } else { "err" };
    check.count(&format!("{origin}:{scen}:{}:{}:shift{}:{outcome}", types.join("+"), storage.join("+"), case.shift), r.is_ok() && case.steps.len() >= 1);
    check.bump(&format!("archive_patch_{scen}_{outcome}"), 1);
    if origin == "ap-grid" && r.is_ok() && case.scenario == Scenario::Plain {
        for (st, ty) in storage.iter().zip(types.iter()) {
            check.bump(&format!("essential_accepted:archive-level {ty} stored as {st}"), 1);
        }
        if case.steps.len() >= 2 {
            check.bump("essential_accepted:archive-level two patches in sequence", 1);
        }
    }
    if let Err(e) = &r {
        let key: String = e.to_string().chars().filter(|c| !c.is_ascii_digit()).take(40).collect();
        check.bump(&format!("archive_patch_{scen}_err:{key}"), 1);
        check.sample(&format!("ap-err:{key}"), || json!({"kind": "archive-patch", "case": case, "rejected_with": e.to_string()}));
    }
    match case.scenario {
        Scenario::Plain | Scenario::CorruptPayload { .. } | Scenario::StalePatchBelowBase => {
            if let Ok(x) = &r {
                if *x != cur {
                    return Err(Fail::new(
                        format!("chain-patch:{scen}:result-differs-from-patched-base"),
                        format!("read_file returned {} bytes (MD5 {}), base with all patches applied has {} bytes (declared MD5 {})", x.len(), hex::encode(bp::md5(x)), cur.len(), hex::encode(declared_after)),
                    ));
                }
            }
        }
        Scenario::WrongBase | Scenario::NoBase => {
            if let Ok(x) = &r {
                return Err(Fail::new(
                    format!("chain-patch:{scen}:unverified-bytes-returned"),
                    format!("no applicable base exists, yet read_file returned {} bytes (MD5 {}, top patch declares {})", x.len(), hex::encode(bp::md5(x)), hex::encode(declared_after)),
                ));
            }
        }
        Scenario::FullFileOnTop => match &r {
            Ok(x) if *x == top_content => {}
            Ok(x) => return Err(Fail::new("chain-patch:full-file-on-top:lower-priority-version-returned", format!("{} bytes returned instead of the full file of the highest-priority archive", x.len()))),
            Err(e) => return Err(Fail::new("chain-patch:full-file-on-top:not-read", format!("{e}"))),
        },
    }
    Ok(())
}

fn step_strategy() -> impl Strategy<Value = Step> {
    (crate::pcase::case_strategy(), 0u8..3).prop_map(|(c, storage)| Step { kind: c.kind, incl_header: c.incl_header, storage })
}

fn case_strategy() -> impl Strategy<Value = ArchCase> {
    (
        (0usize..8, 0u32..4096, any::<u32>()),
        proptest::collection::vec(step_strategy(), 1..=2),
        0u16..=3,
        any::<u8>(),
        0u8..3,
        prop_oneof![
            6 => Just(Scenario::Plain),
            2 => Just(Scenario::WrongBase),
            1 => Just(Scenario::NoBase),
            1 => Just(Scenario::FullFileOnTop),
            1 => Just(Scenario::StalePatchBelowBase),
            3 => any::<u32>().prop_map(|off| Scenario::CorruptPayload { off }),
        ],
    )
        .prop_map(|((c, len, seed), steps, shift, name, tie, scenario)| ArchCase { base: Blob { class: vcheck::gens::mpq::ALL_CLASSES[c], len, seed }, steps, shift, name, scenario, tie, align: if seed % 5 == 0 { 1 + (seed % 3) as u8 } else { 0 } })
}

pub fn grid() -> Vec<ArchCase> {
    let mut v = vec![];
    let g = crate::pcase::grid();
    let picks: Vec<&PatchCase> = g.iter().filter(|c| c.base.len == 1000).collect();
    for (i, c) in picks.iter().enumerate() {
        for storage in 0..3u8 {
            for scenario in [Scenario::Plain, Scenario::WrongBase, Scenario::NoBase, Scenario::FullFileOnTop, Scenario::StalePatchBelowBase, Scenario::CorruptPayload { off: 40 + i as u32 }] {
                if scenario != Scenario::Plain && (i + storage as usize) % 4 != 0 {
                    continue;
                }
                v.push(ArchCase { base: c.base, steps: vec![Step { kind: c.kind.clone(), incl_header: c.incl_header, storage }], shift: (i % 3) as u16, name: (i * 7 + storage as usize) as u8, scenario, tie: (i % 3) as u8, align: 0 });
                if scenario == Scenario::Plain && matches!(c.kind, Kind::Copy { .. }) {
                    // the PTCH stream ends exactly on a sector boundary (1 and 2 whole sectors)
                    for align in [1u8, 2] {
                        v.push(ArchCase { base: c.base, steps: vec![Step { kind: c.kind.clone(), incl_header: c.incl_header, storage }], shift: (i % 3) as u16, name: (i * 7 + storage as usize) as u8, scenario, tie: 0, align });
                    }
                }
            }
        }
    }
    // two-step chains
    let copy = Step { kind: Kind::Copy { new: Blob { class: ContentClass::Text, len: 700, seed: 5 } }, incl_header: true, storage: 1 };
    for (i, c) in picks.iter().enumerate().filter(|(_, c)| c.is_bsd0()).take(6) {
        v.push(ArchCase { base: c.base, steps: vec![copy.clone(), Step { kind: c.kind.clone(), incl_header: false, storage: (i % 3) as u8 }], shift: 0, name: i as u8, scenario: Scenario::Plain, tie: 0, align: 0 });
    }
    v
}

pub fn run_all(check: &Check) {
    for case in grid() {
        if let Err(f) = engine::guard("archive-patch", || run(check, &case, "ap-grid")).and_then(|x| x) {
            check.fail(&f, json!({"kind": "archive-patch", "case": case}));
        }
    }
    pt::run(
        check,
        "archive-patch",
        check.tier.pick(400u32, 12_000),
        pt::Opts { max_shrink_iters: 300, ..Default::default() },
        case_strategy,
        |c| json!({"kind": "archive-patch", "case": c}),
        |c| run(check, c, "ap"),
    );
    for key in ["BSD0 stored as raw", "BSD0 stored as zlib", "BSD0 stored as sectors", "COPY stored as raw", "COPY stored as zlib", "COPY stored as sectors", "two patches in sequence"] {
        if check.counter(&format!("essential_accepted:archive-level {key}")) == 0 {
            check.inconclusive(&format!("no archive-level grid case of the class '{key}' was accepted: vacuous for that class"));
        }
    }
    check.set_extra(
        "archive_level_patch_acceptance",
        json!({
            "plain_ok": check.counter("archive_patch_plain_ok"),
            "plain_err": check.counter("archive_patch_plain_err"),
        }),
    );
}
