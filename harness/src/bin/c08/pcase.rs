//! Patch cases: a serialisable recipe (base blob descriptor + edit script / replacement blob +
//! framing choices) that a deterministic builder expands into a PTCH file, and the alterations
//! applied to such a file.
use crate::bspatch::{self as bp, off, Ptch, RleOpts, Seek, Seg};
use proptest::prelude::*;
use serde::{Deserialize, Serialize};
use vcheck::gens::mpq::{materialize, ContentClass, ALL_CLASSES};

#[derive(Clone, Copy, Debug, PartialEq, Eq, Serialize, Deserialize)]
pub struct Blob {
    pub class: ContentClass,
    pub len: u32,
    pub seed: u32,
}
impl Blob {
    pub fn bytes(&self) -> Vec<u8> {
        materialize(self.class, self.len as usize, self.seed)
    }
}

#[derive(Clone, Debug, PartialEq, Eq, Serialize, Deserialize)]
pub enum Kind {
    Copy { new: Blob },
    Bsd0 { segs: Vec<Seg>, rle: RleOpts },
}

#[derive(Clone, Debug, PartialEq, Eq, Serialize, Deserialize)]
pub struct PatchCase {
    pub base: Blob,
    pub kind: Kind,
    /// declared patch-data size counts the 68 header bytes (StormLib) or the payload only
    pub incl_header: bool,
}

pub struct BuiltPatch {
    pub base: Vec<u8>,
    pub new: Vec<u8>,
    pub ptch: Ptch,
    /// BSD0 only: the BSDIFF40 blob before RLE
    pub blob: Vec<u8>,
    pub built: bp::Built,
    pub bytes: Vec<u8>,
}

fn frame(base: &[u8], new: &[u8], ptype: u32, unpacked_len: usize, payload: Vec<u8>, incl_header: bool) -> Ptch {
    Ptch {
        sig: bp::SIG_PTCH,
        patch_data_size: (unpacked_len + if incl_header { bp::HEADER_LEN } else { 0 }) as u32,
        size_before: base.len() as u32,
        size_after: new.len() as u32,
        md5_sig: bp::SIG_MD5,
        md5_block_size: 40,
        md5_before: bp::md5(base),
        md5_after: bp::md5(new),
        xfrm_sig: bp::SIG_XFRM,
        xfrm_block_size: (12 + payload.len()) as u32,
        ptype,
        payload,
    }
}

/// a COPY patch that turns `base` into the explicit bytes `new` (patch-history universes, where the
/// new content is not a blob descriptor)
pub fn copy_patch_bytes(base: &[u8], new: &[u8], incl_header: bool) -> Vec<u8> {
    frame(base, new, bp::T_COPY, new.len(), new.to_vec(), incl_header).to_bytes()
}

impl PatchCase {
    pub fn build(&self) -> BuiltPatch {
        self.build_on(self.base.bytes())
    }
    /// build against explicit base bytes (second link of a patch chain)
    pub fn build_on(&self, base: Vec<u8>) -> BuiltPatch {
        match &self.kind {
            Kind::Copy { new } => {
                let new = new.bytes();
                let ptch = frame(&base, &new, bp::T_COPY, new.len(), new.clone(), self.incl_header);
                let bytes = ptch.to_bytes();
                BuiltPatch { base, new, ptch, blob: vec![], built: bp::Built::default(), bytes }
            }
            Kind::Bsd0 { segs, rle } => {
                let built = bp::build_diff(&base, segs);
                let blob = bp::bsdiff_blob(&built.ctrl, &built.diff, &built.extra, built.new.len() as u64);
                let payload = bp::rle_encode(&blob, rle);
                let ptch = frame(&base, &built.new, bp::T_BSD0, blob.len(), payload, self.incl_header);
                let bytes = ptch.to_bytes();
                BuiltPatch { base, new: built.new.clone(), ptch, blob, built, bytes }
            }
        }
    }
    pub fn is_bsd0(&self) -> bool {
        matches!(self.kind, Kind::Bsd0 { .. })
    }
    pub fn rle(&self) -> RleOpts {
        match &self.kind {
            Kind::Bsd0 { rle, .. } => *rle,
            _ => RleOpts::plain(),
        }
    }
}

// --------------------------------------------------------------------------------- alterations

/// byte operations: 0 = ^1, 1 = ^0x80, 2 = set 0, 3 = set 0xFF
pub fn byte_op(b: u8, op: u8) -> u8 {
    match op {
        0 => b ^ 1,
        1 => b ^ 0x80,
        2 => 0,
        _ => 0xFF,
    }
}
pub const OP_NAMES: [&str; 4] = ["xor01", "xor80", "set00", "setFF"];

#[derive(Clone, Debug, PartialEq, Eq, Serialize, Deserialize)]
pub enum Alt {
    /// the unaltered patch (well-formed reference point of a batch)
    None,
    /// one byte of the finished PTCH file
    Byte { off: u32, op: u8 },
    /// a 32-bit header field (offset inside the file) set to a value
    Hdr { off: u32, value: u32 },
    /// patch-data size and the RLE length prefix both set to a value
    UnpackedSize { value: u32 },
    /// BSDIFF40 header word (0 = signature, 1 = ctrl size, 2 = diff size, 3 = new size) set before
    /// RLE packing; `sync` also writes the value into the PTCH size-after field
    Inner { word: u8, value: u64, sync: bool },
    /// ctrl-size and diff-size words together
    InnerPair { ctrl: u64, data: u64 },
    /// one word of one control triple, before RLE packing
    Ctrl { idx: u32, word: u8, value: u32 },
    /// one byte of the BSDIFF40 blob, before RLE packing
    InnerByte { off: u32, op: u8 },
    Truncate { len: u32 },
    Extend { n: u32, fill: u8 },
    /// swap the two digests
    Md5Swap,
    /// a whole digest field (0 = before, 1 = after) filled with one byte value ("no digest"
    /// markers of other tools); with `also`: additionally one base byte (before) or the last
    /// payload byte (after) is changed, so that the field is the only thing that could notice
    Md5Fill { which: u8, fill: u8, also: bool },
    /// the patch is intact but one byte of the base file differs
    BaseByte { off: u32, op: u8 },
    /// the base file is cut or extended by `delta` bytes
    BaseLen { delta: i32 },
}

impl Alt {
    pub fn kind(&self) -> String {
        match self {
            Alt::None => "intact".into(),
            Alt::Byte { off: o, op } => {
                let o = *o as usize;
                let f = if o < off::PATCH_DATA_SIZE {
                    "ptch-sig"
                } else if o < off::SIZE_BEFORE {
                    "patch-data-size"
                } else if o < off::SIZE_AFTER {
                    "size-before"
                } else if o < off::MD5_SIG {
                    "size-after"
                } else if o < off::MD5_BLOCK_SIZE {
                    "md5-sig"
                } else if o < off::MD5_BEFORE {
                    "md5-block-size"
                } else if o < off::MD5_AFTER {
                    "md5-before"
                } else if o < off::XFRM_SIG {
                    "md5-after"
                } else if o < off::XFRM_BLOCK_SIZE {
                    "xfrm-sig"
                } else if o < off::TYPE {
                    "xfrm-block-size"
                } else if o < off::PAYLOAD {
                    "type"
                } else {
                    "payload"
                };
                format!("byte:{f}:{}", OP_NAMES[(*op & 3) as usize])
            }
            Alt::Hdr { off: o, value } => format!("hdr@{o}:{}", val_class(*value as u64)),
            Alt::UnpackedSize { value } => format!("unpacked-size:{}", val_class(*value as u64)),
            Alt::Inner { word, value, sync } => {
                format!("inner:{}:{}{}", ["sig", "ctrl", "diff", "new"][(*word & 3) as usize], val_class(*value), if *sync { ":sync" } else { "" })
            }
            Alt::InnerPair { ctrl, data } => format!("inner-pair:{}+{}", val_class(*ctrl), val_class(*data)),
            Alt::Ctrl { word, value, .. } => format!("ctrl:{}:{}", ["add", "extra", "seek"][(*word % 3) as usize], val_class(*value as u64)),
            Alt::InnerByte { op, .. } => format!("inner-byte:{}", OP_NAMES[(*op & 3) as usize]),
            Alt::Truncate { len } => format!("truncate:{}", if (*len as usize) < bp::HEADER_LEN { "in-header" } else { "in-payload" }),
            Alt::Extend { .. } => "extend".into(),
            Alt::Md5Swap => "md5-swap".into(),
            Alt::Md5Fill { which, fill, also } => format!("md5-fill:{}:{fill:02x}{}", if *which == 0 { "before" } else { "after" }, if *also { "+data" } else { "" }),
            Alt::BaseByte { op, .. } => format!("base-byte:{}", OP_NAMES[(*op & 3) as usize]),
            Alt::BaseLen { delta } => format!("base-len:{}", if *delta < 0 { "shorter" } else { "longer" }),
        }
    }
}

pub fn val_class(v: u64) -> &'static str {
    match v {
        0 => "0",
        1..=0xFFFF => "small",
        0x1_0000..=0x3FF_FFFF => "<64Mi",
        0x400_0000..=0x7FFF_FFFF => "<2Gi",
        0x8000_0000..=0xFFFF_FFFF => "<4Gi",
        0x1_0000_0000..=0x7FFF_FFFF_FFFF_FFFF => "<2^63",
        _ => "≥2^63",
    }
}

/// (altered patch file, altered base)
pub fn apply_alt(case: &PatchCase, b: &BuiltPatch, alt: &Alt) -> (Vec<u8>, Vec<u8>) {
    let mut bytes = b.bytes.clone();
    let mut base = b.base.clone();
    let repack = |blob: &[u8], pt: &Ptch| -> Vec<u8> {
        let mut p = pt.clone();
        p.payload = bp::rle_encode(blob, &case.rle());
        p.xfrm_block_size = (12 + p.payload.len()) as u32;
        p.to_bytes()
    };
    match alt {
        Alt::None => {}
        Alt::Byte { off, op } => {
            if !bytes.is_empty() {
                let o = *off as usize % bytes.len();
                bytes[o] = byte_op(bytes[o], *op);
            }
        }
        Alt::Hdr { off, value } => {
            let o = *off as usize;
            if o + 4 <= bytes.len() {
                bytes[o..o + 4].copy_from_slice(&value.to_le_bytes());
            }
        }
        Alt::UnpackedSize { value } => {
            bytes[off::PATCH_DATA_SIZE..off::PATCH_DATA_SIZE + 4].copy_from_slice(&value.to_le_bytes());
            if case.is_bsd0() && bytes.len() >= off::PAYLOAD + 4 {
                bytes[off::PAYLOAD..off::PAYLOAD + 4].copy_from_slice(&value.to_le_bytes());
            }
        }
        Alt::Inner { word, value, sync } => {
            if case.is_bsd0() {
                let mut blob = b.blob.clone();
                let o = (*word & 3) as usize * 8;
                blob[o..o + 8].copy_from_slice(&value.to_le_bytes());
                let mut pt = b.ptch.clone();
                if *sync {
                    pt.size_after = *value as u32;
                }
                bytes = repack(&blob, &pt);
            }
        }
        Alt::InnerPair { ctrl, data } => {
            if case.is_bsd0() {
                let mut blob = b.blob.clone();
                blob[8..16].copy_from_slice(&ctrl.to_le_bytes());
                blob[16..24].copy_from_slice(&data.to_le_bytes());
                bytes = repack(&blob, &b.ptch);
            }
        }
        Alt::Ctrl { idx, word, value } => {
            if case.is_bsd0() && !b.built.ctrl.is_empty() {
                let mut blob = b.blob.clone();
                let i = *idx as usize % b.built.ctrl.len();
                let o = 32 + i * 12 + (*word % 3) as usize * 4;
                blob[o..o + 4].copy_from_slice(&value.to_le_bytes());
                bytes = repack(&blob, &b.ptch);
            }
        }
        Alt::InnerByte { off, op } => {
            if case.is_bsd0() {
                let mut blob = b.blob.clone();
                let o = *off as usize % blob.len();
                blob[o] = byte_op(blob[o], *op);
                bytes = repack(&blob, &b.ptch);
            }
        }
        Alt::Truncate { len } => bytes.truncate(*len as usize),
        Alt::Extend { n, fill } => bytes.extend(std::iter::repeat(*fill).take(*n as usize)),
        Alt::Md5Swap => {
            let (a, c) = (b.ptch.md5_before, b.ptch.md5_after);
            bytes[off::MD5_BEFORE..off::MD5_BEFORE + 16].copy_from_slice(&c);
            bytes[off::MD5_AFTER..off::MD5_AFTER + 16].copy_from_slice(&a);
        }
        Alt::Md5Fill { which, fill, also } => {
            let o = if *which == 0 { off::MD5_BEFORE } else { off::MD5_AFTER };
            if bytes.len() >= o + 16 {
                bytes[o..o + 16].fill(*fill);
            }
            if *also {
                if *which == 0 {
                    if let Some(x) = base.last_mut() {
                        *x ^= 0x20;
                    }
                } else if bytes.len() > off::PAYLOAD {
                    let l = bytes.len() - 1;
                    bytes[l] ^= 0x20;
                }
            }
        }
        Alt::BaseByte { off, op } => {
            if !base.is_empty() {
                let o = *off as usize % base.len();
                base[o] = byte_op(base[o], *op);
            }
        }
        Alt::BaseLen { delta } => {
            if *delta < 0 {
                let n = base.len().saturating_sub((-*delta) as usize);
                base.truncate(n);
            } else {
                base.extend(std::iter::repeat(0x5A).take(*delta as usize));
            }
        }
    }
    (bytes, base)
}

/// The alteration plan for one patch: every header byte × 4 operations, `payload_samples`
/// payload positions × 4 (all positions when `payload_samples` ≥ payload length), boundary
/// values for every length field (outer and inner), ctrl-triple words, truncations, base changes.
pub fn plan(case: &PatchCase, b: &BuiltPatch, payload_samples: usize, seed: u64) -> Vec<Alt> {
    let mut v = vec![Alt::None];
    for o in 0..bp::HEADER_LEN as u32 {
        for op in 0..4u8 {
            v.push(Alt::Byte { off: o, op });
        }
    }
    let plen = b.bytes.len() - bp::HEADER_LEN;
    let mut st = seed | 1;
    let mut next = || {
        st ^= st << 13;
        st ^= st >> 7;
        st ^= st << 17;
        st
    };
    let positions: Vec<usize> = if plen <= payload_samples {
        (0..plen).collect()
    } else {
        // always the first 48 bytes (RLE prefix + packed BSDIFF40 header) and the last 4, rest sampled
        let mut p: Vec<usize> = (0..48.min(plen)).collect();
        p.extend(plen.saturating_sub(4)..plen);
        while p.len() < payload_samples {
            p.push(next() as usize % plen);
        }
        p.sort();
        p.dedup();
        p
    };
    for p in positions {
        for op in 0..4u8 {
            v.push(Alt::Byte { off: (bp::HEADER_LEN + p) as u32, op });
        }
    }
    let h = &b.ptch;
    let near = |x: u32| [x.wrapping_sub(1), x.wrapping_add(1), x.wrapping_sub(12), x.wrapping_add(12), x.wrapping_mul(2), x / 2];
    let bounds32 = [0u32, 1, 11, 12, 63, 64, 67, 68, 0xFFFF, 0x10000, 0x3FF_FFFF, 0x400_0001, 0x7FFF_FFFF, 0x8000_0000, 0x8000_0001, 0xFFFF_FFFE, 0xFFFF_FFFF];
    for (o, cur) in [
        (off::PATCH_DATA_SIZE, h.patch_data_size),
        (off::SIZE_BEFORE, h.size_before),
        (off::SIZE_AFTER, h.size_after),
        (off::MD5_BLOCK_SIZE, h.md5_block_size),
        (off::XFRM_BLOCK_SIZE, h.xfrm_block_size),
    ] {
        for val in bounds32.iter().copied().chain(near(cur)) {
            if val != cur {
                v.push(Alt::Hdr { off: o as u32, value: val });
            }
        }
    }
    for val in [bp::T_COPY, bp::T_BSD0, 0, 0x3144_5342] {
        if val != h.ptype {
            v.push(Alt::Hdr { off: off::TYPE as u32, value: val });
        }
    }
    for val in bounds32 {
        v.push(Alt::UnpackedSize { value: val });
    }
    for n in [0u32, 1, 3, 4, 16, 63, 64, 65, 67, 68, 69, 71, 72, 76, 100] {
        if (n as usize) < b.bytes.len() {
            v.push(Alt::Truncate { len: n });
        }
    }
    for k in 1..=4usize {
        if b.bytes.len() > k {
            v.push(Alt::Truncate { len: (b.bytes.len() - k) as u32 });
        }
    }
    v.push(Alt::Truncate { len: (bp::HEADER_LEN + plen / 2) as u32 });
    for (n, fill) in [(1u32, 0u8), (1, 0xFF), (13, 0x80), (300, 0x7F)] {
        v.push(Alt::Extend { n, fill });
    }
    v.push(Alt::Md5Swap);
    for which in 0..2u8 {
        for fill in [0u8, 0xFF] {
            for also in [false, true] {
                v.push(Alt::Md5Fill { which, fill, also });
            }
        }
    }
    if !b.base.is_empty() {
        for _ in 0..6 {
            v.push(Alt::BaseByte { off: next() as u32, op: (next() & 3) as u8 });
        }
        v.push(Alt::BaseByte { off: 0, op: 0 });
        v.push(Alt::BaseByte { off: (b.base.len() - 1) as u32, op: 1 });
    }
    for d in [-1i32, 1, -7, 64] {
        v.push(Alt::BaseLen { delta: d });
    }
    if case.is_bsd0() {
        let bounds64 = [
            0u64, 1, 11, 12, 13, 24, 0xFFFF, 0x400_0001, 0x7FFF_FFFF, 0x8000_0000, 0xFFFF_FFFF, 0x1_0000_0000, 0x1_0000_000C,
            0x7FFF_FFFF_FFFF_FFFF, 0x8000_0000_0000_0000, u64::MAX - 44, u64::MAX - 32, u64::MAX - 31, u64::MAX - 12, u64::MAX - 11, u64::MAX - 1, u64::MAX,
        ];
        let cur = [bp::SIG_BSDIFF40, (b.built.ctrl.len() * 12) as u64, b.built.diff.len() as u64, b.new.len() as u64];
        for word in 1..=3u8 {
            let c = cur[word as usize];
            for val in bounds64.iter().copied().chain([c.wrapping_sub(1), c + 1, c.wrapping_sub(12), c + 12, c * 2]) {
                if val != c {
                    v.push(Alt::Inner { word, value: val, sync: false });
                    if word == 3 {
                        v.push(Alt::Inner { word, value: val, sync: true });
                    }
                }
            }
        }
        v.push(Alt::Inner { word: 0, value: 0, sync: false });
        v.push(Alt::Inner { word: 0, value: bp::SIG_BSDIFF40 ^ 1, sync: false });
        v.push(Alt::Inner { word: 0, value: 0x3134_4646_4944_5342, sync: false });
        // both sizes large so that each addition alone does not overflow but their sum does
        for (c, d) in [(0x7FFF_FFFF_FFFF_FFFFu64, 0x7FFF_FFFF_FFFF_FFFFu64), (0x8000_0000_0000_0000, 0x8000_0000_0000_0000), (cur[1], u64::MAX - cur[1] - 32), (cur[1], u64::MAX - cur[1] - 31), (u64::MAX / 2, u64::MAX / 2 + 1)] {
            v.push(Alt::InnerPair { ctrl: c, data: d });
        }
        let n = b.built.ctrl.len();
        let idxs: Vec<usize> = if n <= 3 { (0..n).collect() } else { vec![0, n / 2, n - 1] };
        for i in idxs {
            for word in 0..3u8 {
                let c = b.built.ctrl[i][word as usize];
                for val in [0u32, 1, 0x7FFF_FFFF, 0x8000_0000, 0x8000_0001, 0xFFFF_FFFF, c.wrapping_sub(1), c.wrapping_add(1), c ^ 0x8000_0000] {
                    if val != c {
                        v.push(Alt::Ctrl { idx: i as u32, word, value: val });
                    }
                }
            }
        }
        let bl = b.blob.len();
        let mut offs: Vec<usize> = (0..32.min(bl)).collect();
        for _ in 0..payload_samples.min(bl) / 2 {
            offs.push(next() as usize % bl);
        }
        offs.sort();
        offs.dedup();
        for o in offs {
            for op in 0..4u8 {
                v.push(Alt::InnerByte { off: o as u32, op });
            }
        }
    }
    v
}

// ---------------------------------------------------------------------------------- strategies

fn blob_strategy(max_len: u32) -> impl Strategy<Value = Blob> {
    (
        0usize..ALL_CLASSES.len(),
        prop_oneof![
            2 => 0u32..=4,
            4 => 5u32..=300,
            3 => 301u32..=2048,
            2 => 2049u32..=max_len,
            1 => prop_oneof![Just(127u32), Just(128), Just(129), Just(255), Just(256), Just(4096), Just(max_len)],
        ],
        any::<u32>(),
    )
        .prop_map(|(c, len, seed)| Blob { class: ALL_CLASSES[c], len, seed })
}

fn seg_strategy() -> impl Strategy<Value = Seg> {
    (
        prop_oneof![1 => Just(0u32), 3 => 1u32..=40, 4 => 41u32..=700, 2 => 701u32..=3000, 1 => prop_oneof![Just(127u32), Just(128), Just(129), Just(256), Just(257)]],
        prop_oneof![3 => Just(0u16), 2 => 1u16..=3, 3 => 4u16..=400],
        any::<u32>(),
        prop_oneof![3 => Just(0u32), 4 => 1u32..=20, 2 => 21u32..=600],
        any::<u32>(),
        prop_oneof![
            3 => Just(Seek::None),
            3 => (1u32..=2000).prop_map(Seek::Fwd),
            3 => (1u32..=2000).prop_map(Seek::Back),
            2 => Just(Seek::ToZero),
            1 => Just(Seek::NegZero),
        ],
    )
        .prop_map(|(add, perturb, pseed, extra, eseed, seek)| Seg { add, perturb, pseed, extra, eseed, seek })
}

pub fn rle_strategy() -> impl Strategy<Value = RleOpts> {
    (
        prop_oneof![3 => Just(128u8), 2 => 1u8..=128, 1 => Just(127u8), 1 => Just(1u8)],
        prop_oneof![3 => Just(128u8), 2 => 1u8..=128, 1 => Just(127u8)],
        prop_oneof![3 => Just(1u8), 2 => 2u8..=5, 1 => Just(200u8)],
        any::<bool>(),
    )
        .prop_map(|(max_lit, max_zero, min_zero, omit_trailing_zeros)| RleOpts { max_lit, max_zero, min_zero, omit_trailing_zeros })
}

pub fn case_strategy() -> impl Strategy<Value = PatchCase> {
    let kind = prop_oneof![
        1 => blob_strategy(8192).prop_map(|new| Kind::Copy { new }),
        4 => (proptest::collection::vec(seg_strategy(), 0..=8), rle_strategy()).prop_map(|(segs, rle)| Kind::Bsd0 { segs, rle }),
    ];
    (blob_strategy(8192), kind, any::<bool>()).prop_map(|(base, kind, incl_header)| PatchCase { base, kind, incl_header })
}

/// deterministic grid that hits every essential class whatever the seed
pub fn grid() -> Vec<PatchCase> {
    let mut v = vec![];
    let blob = |class, len, seed| Blob { class, len, seed };
    let seg = |add, perturb, extra, seek| Seg { add, perturb, pseed: 11, extra, eseed: 13, seek };
    let bases = [blob(ContentClass::Text, 1000, 1), blob(ContentClass::Random, 8192, 2), blob(ContentClass::Sparse, 300, 3), blob(ContentClass::Constant, 0, 0), blob(ContentClass::Period, 129, 4)];
    for (bi, base) in bases.iter().enumerate() {
        for incl in [false, true] {
            // COPY: grow, shrink, empty
            for new in [blob(ContentClass::Text, 40, 9), blob(ContentClass::Random, 5000, 8), blob(ContentClass::Constant, 0, 0)] {
                v.push(PatchCase { base: *base, kind: Kind::Copy { new }, incl_header: incl });
            }
            let scripts: Vec<Vec<Seg>> = vec![
                vec![],
                vec![seg(base.len, 0, 0, Seek::None)],
                vec![seg(base.len / 2, 7, 5, Seek::None), seg(base.len - base.len / 2, 0, 0, Seek::None)],
                vec![seg(100, 3, 10, Seek::Fwd(50)), seg(100, 0, 0, Seek::Back(120)), seg(200, 5, 3, Seek::None)],
                vec![seg(300, 0, 1, Seek::ToZero), seg(300, 9, 0, Seek::NegZero), seg(10, 0, 0, Seek::None)],
                vec![seg(0, 0, 700, Seek::None)],
                vec![seg(base.len + 40, 2, 0, Seek::Back(40)), seg(20, 0, 0, Seek::ToZero), seg(5, 1, 5, Seek::None)],
                vec![seg(128, 0, 127, Seek::Fwd(1)), seg(127, 128, 129, Seek::Back(1)), seg(129, 127, 128, Seek::None)],
            ];
            for (si, segs) in scripts.into_iter().enumerate() {
                let rle = match (si + bi) % 4 {
                    0 => RleOpts::plain(),
                    1 => RleOpts { max_lit: 127, max_zero: 127, min_zero: 2, omit_trailing_zeros: true },
                    2 => RleOpts { max_lit: 1, max_zero: 1, min_zero: 1, omit_trailing_zeros: false },
                    _ => RleOpts { max_lit: 128, max_zero: 128, min_zero: 200, omit_trailing_zeros: false },
                };
                v.push(PatchCase { base: *base, kind: Kind::Bsd0 { segs, rle }, incl_header: incl });
            }
        }
    }
    v
}

pub fn shape(case: &PatchCase, b: &BuiltPatch) -> String {
    let sz = |n: usize| match n {
        0 => "0",
        1..=127 => "<128",
        128..=1023 => "<1Ki",
        1024..=4095 => "<4Ki",
        _ => "≥4Ki",
    };
    match &case.kind {
        Kind::Copy { .. } => format!("COPY:base{}:new{}:hdr{}", sz(b.base.len()), sz(b.new.len()), case.incl_header as u8),
        Kind::Bsd0 { rle, .. } => format!(
            "BSD0:base{}:new{}:ctrl{}:neg{}:over{}:rle{}{}:hdr{}",
            sz(b.base.len()),
            sz(b.new.len()),
            match b.built.ctrl.len() {
                0 => "0",
                1 => "1",
                2..=3 => "2-3",
                _ => "4+",
            },
            if b.built.neg_seeks_interior > 0 {
                "I"
            } else if b.built.neg_seeks > 0 {
                "Z"
            } else {
                "-"
            },
            (b.built.overruns > 0) as u8,
            if rle.max_lit == 128 && rle.max_zero == 128 { "std" } else { "odd" },
            if rle.omit_trailing_zeros { "t" } else { "" },
            case.incl_header as u8
        ),
    }
}
