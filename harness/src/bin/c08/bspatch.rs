//! Independent reference for Blizzard's PTCH patch container (incremental MPQ patches):
//! PTCH / MD5_ / XFRM framing, the byte-wise RLE wrapper of BSD0 payloads, a BSDIFF40 applier,
//! and a *generator-side* diff builder that turns an edit script into ctrl / diff / extra
//! blocks. Written from the published description (zezula.net "MPQ patch files" and the
//! classic bspatch algorithm); nothing here calls into wow-mpq.
use md5::{Digest, Md5};
use serde::{Deserialize, Serialize};

pub const SIG_PTCH: u32 = 0x4843_5450; // 'PTCH'
pub const SIG_MD5: u32 = 0x5f35_444d; // 'MD5_'
pub const SIG_XFRM: u32 = 0x4d52_4658; // 'XFRM'
pub const T_COPY: u32 = 0x5950_4f43; // 'COPY'
pub const T_BSD0: u32 = 0x3044_5342; // 'BSD0'
pub const SIG_BSDIFF40: u64 = 0x3034_4646_4944_5342; // "BSDIFF40"
/// PTCH header (16) + MD5_ block (40) + XFRM header (12)
pub const HEADER_LEN: usize = 68;

pub fn md5(b: &[u8]) -> [u8; 16] {
    let mut h = Md5::new();
    h.update(b);
    h.finalize().into()
}

// ----------------------------------------------------------------------------------------- RLE

/// How the generator chops the byte stream into RLE tokens (all choices decode identically)
#[derive(Clone, Copy, Debug, PartialEq, Eq, Serialize, Deserialize)]
pub struct RleOpts {
    /// longest literal token, 1..=128
    pub max_lit: u8,
    /// longest zero-run token, 1..=128
    pub max_zero: u8,
    /// zero runs shorter than this stay inside literals (≥1)
    pub min_zero: u8,
    /// leave a zero run that reaches the end of the data unencoded (the decoder pre-fills zeros)
    pub omit_trailing_zeros: bool,
}

impl RleOpts {
    pub fn plain() -> RleOpts {
        RleOpts { max_lit: 128, max_zero: 128, min_zero: 1, omit_trailing_zeros: false }
    }
    fn norm(&self) -> (usize, usize, usize) {
        (
            (self.max_lit as usize).clamp(1, 128),
            (self.max_zero as usize).clamp(1, 128),
            (self.min_zero as usize).max(1),
        )
    }
}

/// token with the high bit set: (t & 0x7F) + 1 literal bytes follow; otherwise t + 1 zero bytes.
/// The stream starts with a 32-bit little-endian length that decoders skip.
pub fn rle_encode(data: &[u8], o: &RleOpts) -> Vec<u8> {
    let (max_lit, max_zero, min_zero) = o.norm();
    let mut out = (data.len() as u32).to_le_bytes().to_vec();
    let n = data.len();
    let zero_run_at = |i: usize| -> usize {
        let mut j = i;
        while j < n && data[j] == 0 {
            j += 1;
        }
        j - i
    };
    let mut i = 0;
    while i < n {
        let z = zero_run_at(i);
        if z >= min_zero {
            if i + z == n && o.omit_trailing_zeros {
                break;
            }
            let mut left = z;
            while left > 0 {
                let c = left.min(max_zero);
                out.push((c - 1) as u8);
                left -= c;
            }
            i += z;
            continue;
        }
        // literal stretch up to the next zero run that is long enough
        let mut j = i + z.max(1);
        while j < n {
            if data[j] == 0 {
                let zz = zero_run_at(j);
                if zz >= min_zero {
                    break;
                }
                j += zz;
            } else {
                j += 1;
            }
        }
        let mut k = i;
        while k < j {
            let c = (j - k).min(max_lit);
            out.push(0x80 | (c - 1) as u8);
            out.extend_from_slice(&data[k..k + c]);
            k += c;
        }
        i = j;
    }
    out
}

/// The published decoder: skip 4 bytes, pre-fill zeros, stop at the end of either buffer.
pub fn rle_decode(comp: &[u8], out_len: usize) -> Result<Vec<u8>, String> {
    if comp.len() < 4 {
        return Err("RLE stream shorter than its length prefix".into());
    }
    if out_len > (1 << 28) {
        return Err(format!("declared unpacked size {out_len} refused by the reference"));
    }
    let src = &comp[4..];
    let mut out = vec![0u8; out_len];
    let (mut s, mut d) = (0usize, 0usize);
    while s < src.len() && d < out_len {
        let t = src[s];
        s += 1;
        if t & 0x80 != 0 {
            let mut c = (t & 0x7F) as usize + 1;
            while c > 0 && d < out_len && s < src.len() {
                out[d] = src[s];
                d += 1;
                s += 1;
                c -= 1;
            }
        } else {
            d += t as usize + 1;
        }
    }
    Ok(out)
}

/// token walk of a packed stream: (is_literal, length) per token
fn rle_tokens(comp: &[u8]) -> Vec<(bool, usize)> {
    let mut v = vec![];
    let mut s = 4;
    while s < comp.len() {
        let t = comp[s];
        s += 1;
        if t & 0x80 != 0 {
            let c = (t & 0x7F) as usize + 1;
            v.push((true, c));
            s += c;
        } else {
            v.push((false, t as usize + 1));
        }
    }
    v
}
pub fn rle_has_interior_zero_run(comp: &[u8]) -> bool {
    let t = rle_tokens(comp);
    t.windows(2).any(|w| !w[0].0 && w[1].0)
}
pub fn rle_longest_literal(comp: &[u8]) -> usize {
    rle_tokens(comp).iter().filter(|t| t.0).map(|t| t.1).max().unwrap_or(0)
}

// ------------------------------------------------------------------------------------ BSDIFF40

#[derive(Clone, Copy, Debug, PartialEq, Eq, Serialize, Deserialize)]
pub enum Seek {
    None,
    Fwd(u32),
    Back(u32),
    ToZero,
    /// sign bit set, magnitude 0
    NegZero,
}

/// One control triple of the edit script
#[derive(Clone, Copy, Debug, PartialEq, Eq, Serialize, Deserialize)]
pub struct Seg {
    /// bytes taken from the old file (+ diff)
    pub add: u32,
    /// every `perturb`-th byte of the add section is changed (0 = identical copy)
    pub perturb: u16,
    pub pseed: u32,
    /// literal bytes inserted after the add section
    pub extra: u32,
    pub eseed: u32,
    pub seek: Seek,
}

#[derive(Clone, Debug, Default)]
pub struct Built {
    pub new: Vec<u8>,
    pub ctrl: Vec<[u32; 3]>,
    pub diff: Vec<u8>,
    pub extra: Vec<u8>,
    /// triples whose third word has the sign bit set
    pub neg_seeks: usize,
    /// … of which: magnitude ≠ 0 and the old-file cursor does not land on 0
    pub neg_seeks_interior: usize,
    /// add sections that run past the end of the old file
    pub overruns: usize,
}

fn xs(st: &mut u64) -> u64 {
    let mut x = *st;
    x ^= x << 13;
    x ^= x >> 7;
    x ^= x << 17;
    *st = x;
    x
}

/// Build (new file, ctrl, diff, extra) from an edit script over `old`. The old-file cursor is
/// kept inside 0..=old.len()+64 (a diff tool never seeks before the start of the old file).
pub fn build_diff(old: &[u8], segs: &[Seg]) -> Built {
    let mut b = Built::default();
    let mut pos: i64 = 0;
    for s in segs {
        let mut st = 0x9E37_79B9_7F4A_7C15u64 ^ ((s.pseed as u64) << 1 | 1);
        xs(&mut st);
        let mut overrun = false;
        for j in 0..s.add as i64 {
            let p = pos + j;
            let o = if p >= 0 && (p as usize) < old.len() { Some(old[p as usize]) } else { None };
            let changed = s.perturb != 0 && (j as u64 + 1) % s.perturb as u64 == 0;
            match o {
                Some(o) => {
                    let d = if changed { (xs(&mut st) & 0xFF) as u8 | 1 } else { 0 };
                    b.diff.push(d);
                    b.new.push(o.wrapping_add(d));
                }
                None => {
                    overrun = true;
                    let v = (xs(&mut st) & 0xFF) as u8;
                    b.diff.push(v);
                    b.new.push(v);
                }
            }
        }
        if overrun {
            b.overruns += 1;
        }
        pos += s.add as i64;
        let mut st = 0xD1B5_4A32_D192_ED03u64 ^ ((s.eseed as u64) << 1 | 1);
        xs(&mut st);
        for _ in 0..s.extra {
            let v = (xs(&mut st) & 0xFF) as u8;
            b.extra.push(v);
            b.new.push(v);
        }
        let limit = old.len() as i64 + 64;
        let (delta, neg): (i64, bool) = match s.seek {
            Seek::None => (0, false),
            Seek::Fwd(n) => ((n as i64).min((limit - pos).max(0)), false),
            Seek::Back(n) => (-(n as i64).min(pos), true),
            Seek::ToZero => (-pos, true),
            Seek::NegZero => (0, true),
        };
        pos += delta;
        let raw = if neg { 0x8000_0000u32 | (-delta) as u32 } else { delta as u32 };
        if neg {
            b.neg_seeks += 1;
            if delta != 0 && pos != 0 {
                b.neg_seeks_interior += 1;
            }
        }
        b.ctrl.push([s.add, s.extra, raw]);
    }
    b
}

/// Serialise a BSDIFF40 blob: signature, three 64-bit sizes, ctrl triples (3 × u32, third in
/// sign-magnitude), diff block, extra block.
pub fn bsdiff_blob(ctrl: &[[u32; 3]], diff: &[u8], extra: &[u8], new_size: u64) -> Vec<u8> {
    let mut v = Vec::with_capacity(32 + ctrl.len() * 12 + diff.len() + extra.len());
    v.extend_from_slice(&SIG_BSDIFF40.to_le_bytes());
    v.extend_from_slice(&((ctrl.len() * 12) as u64).to_le_bytes());
    v.extend_from_slice(&(diff.len() as u64).to_le_bytes());
    v.extend_from_slice(&new_size.to_le_bytes());
    for c in ctrl {
        for w in c {
            v.extend_from_slice(&w.to_le_bytes());
        }
    }
    v.extend_from_slice(diff);
    v.extend_from_slice(extra);
    v
}

fn rd_u32(b: &[u8], o: usize) -> Option<u32> {
    b.get(o..o + 4).map(|s| u32::from_le_bytes(s.try_into().unwrap()))
}
fn rd_u64(b: &[u8], o: usize) -> Option<u64> {
    b.get(o..o + 8).map(|s| u64::from_le_bytes(s.try_into().unwrap()))
}

/// Reference applier (classic bspatch with Blizzard's 32-bit triples): bytes of the old file
/// outside 0..old.len() contribute nothing; every length is checked.
pub fn bsdiff_apply(old: &[u8], blob: &[u8]) -> Result<Vec<u8>, String> {
    if rd_u64(blob, 0) != Some(SIG_BSDIFF40) {
        return Err("no BSDIFF40 signature".into());
    }
    let ctrl_size = rd_u64(blob, 8).ok_or("short header")?;
    let data_size = rd_u64(blob, 16).ok_or("short header")?;
    let new_size = rd_u64(blob, 24).ok_or("short header")?;
    let data_start = 32u64.checked_add(ctrl_size).ok_or("ctrl size overflows")?;
    let extra_start = data_start.checked_add(data_size).ok_or("data size overflows")?;
    if extra_start > blob.len() as u64 {
        return Err("blocks outside the patch".into());
    }
    if new_size > (1 << 28) {
        return Err("new size refused by the reference".into());
    }
    let ctrl = &blob[32..data_start as usize];
    let data = &blob[data_start as usize..extra_start as usize];
    let extra = &blob[extra_start as usize..];
    let mut out = vec![0u8; new_size as usize];
    let (mut np, mut dp, mut ep) = (0usize, 0usize, 0usize);
    let mut op: i64 = 0;
    for i in 0..ctrl.len() / 12 {
        let add = rd_u32(ctrl, i * 12).unwrap() as usize;
        let mov = rd_u32(ctrl, i * 12 + 4).unwrap() as usize;
        let raw = rd_u32(ctrl, i * 12 + 8).unwrap();
        if np + add > out.len() || dp + add > data.len() {
            return Err(format!("triple {i}: add section outside the new file or the diff block"));
        }
        for j in 0..add {
            let p = op + j as i64;
            let o = if p >= 0 && (p as usize) < old.len() { old[p as usize] } else { 0 };
            out[np + j] = data[dp + j].wrapping_add(o);
        }
        np += add;
        dp += add;
        op += add as i64;
        if np + mov > out.len() || ep + mov > extra.len() {
            return Err(format!("triple {i}: extra section outside the new file or the extra block"));
        }
        out[np..np + mov].copy_from_slice(&extra[ep..ep + mov]);
        np += mov;
        ep += mov;
        let delta = if raw & 0x8000_0000 != 0 { -((raw & 0x7FFF_FFFF) as i64) } else { raw as i64 };
        op += delta;
    }
    if np != out.len() {
        return Err(format!("triples produce {np} bytes, header says {}", out.len()));
    }
    Ok(out)
}

// ------------------------------------------------------------------------------- PTCH container

#[derive(Clone, Debug, PartialEq, Eq)]
pub struct Ptch {
    pub sig: u32,
    pub patch_data_size: u32,
    pub size_before: u32,
    pub size_after: u32,
    pub md5_sig: u32,
    pub md5_block_size: u32,
    pub md5_before: [u8; 16],
    pub md5_after: [u8; 16],
    pub xfrm_sig: u32,
    pub xfrm_block_size: u32,
    pub ptype: u32,
    pub payload: Vec<u8>,
}

impl Ptch {
    pub fn to_bytes(&self) -> Vec<u8> {
        let mut v = Vec::with_capacity(HEADER_LEN + self.payload.len());
        for w in [self.sig, self.patch_data_size, self.size_before, self.size_after, self.md5_sig, self.md5_block_size] {
            v.extend_from_slice(&w.to_le_bytes());
        }
        v.extend_from_slice(&self.md5_before);
        v.extend_from_slice(&self.md5_after);
        for w in [self.xfrm_sig, self.xfrm_block_size, self.ptype] {
            v.extend_from_slice(&w.to_le_bytes());
        }
        v.extend_from_slice(&self.payload);
        v
    }
    pub fn parse(b: &[u8]) -> Result<Ptch, String> {
        if b.len() < HEADER_LEN {
            return Err("shorter than the three headers".into());
        }
        let w = |o: usize| rd_u32(b, o).unwrap();
        Ok(Ptch {
            sig: w(off::SIG),
            patch_data_size: w(off::PATCH_DATA_SIZE),
            size_before: w(off::SIZE_BEFORE),
            size_after: w(off::SIZE_AFTER),
            md5_sig: w(off::MD5_SIG),
            md5_block_size: w(off::MD5_BLOCK_SIZE),
            md5_before: b[off::MD5_BEFORE..off::MD5_BEFORE + 16].try_into().unwrap(),
            md5_after: b[off::MD5_AFTER..off::MD5_AFTER + 16].try_into().unwrap(),
            xfrm_sig: w(off::XFRM_SIG),
            xfrm_block_size: w(off::XFRM_BLOCK_SIZE),
            ptype: w(off::TYPE),
            payload: b[off::PAYLOAD..].to_vec(),
        })
    }

    /// Reference application of a whole PTCH file to `base`. `size_incl_header`: the declared
    /// patch-data size counts the 68 header bytes (StormLib's reading) or only the unpacked
    /// payload (the reading of wow-mpq's own tests).
    pub fn apply(&self, base: &[u8], size_incl_header: bool) -> Result<Vec<u8>, String> {
        if self.sig != SIG_PTCH || self.md5_sig != SIG_MD5 || self.xfrm_sig != SIG_XFRM {
            return Err("bad block signature".into());
        }
        if self.md5_block_size != 40 {
            return Err("MD5_ block size is not 40".into());
        }
        if base.len() != self.size_before as usize || md5(base) != self.md5_before {
            return Err("base file is not the one the patch was made for".into());
        }
        let out = match self.ptype {
            T_COPY => self.payload.clone(),
            T_BSD0 => {
                let n = self.patch_data_size as usize;
                let n = if size_incl_header { n.checked_sub(HEADER_LEN).ok_or("patch data size below header size")? } else { n };
                let blob = rle_decode(&self.payload, n)?;
                bsdiff_apply(base, &blob)?
            }
            t => return Err(format!("unknown patch type {t:#x}")),
        };
        if out.len() != self.size_after as usize || md5(&out) != self.md5_after {
            return Err("result does not match the declared size/digest".into());
        }
        Ok(out)
    }
}

/// byte offsets of the header fields inside a PTCH file
pub mod off {
    pub const SIG: usize = 0;
    pub const PATCH_DATA_SIZE: usize = 4;
    pub const SIZE_BEFORE: usize = 8;
    pub const SIZE_AFTER: usize = 12;
    pub const MD5_SIG: usize = 16;
    pub const MD5_BLOCK_SIZE: usize = 20;
    pub const MD5_BEFORE: usize = 24;
    pub const MD5_AFTER: usize = 40;
    pub const XFRM_SIG: usize = 56;
    pub const XFRM_BLOCK_SIZE: usize = 60;
    pub const TYPE: usize = 64;
    pub const PAYLOAD: usize = 68;
}
