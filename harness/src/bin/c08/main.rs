//! C08 — patch-chain lookup returns the highest-priority version whatever the history; a binary
//! patch yields the patched base with the declared digest, or an error.
//!
//! Part 1 (chain.rs): model-based histories over `PatchChain` (bounded-exhaustive + random),
//! sequential and parallel construction.
//! Part 2 (bspatch.rs, pcase.rs): PTCH files from random edit scripts judged against an
//! independent BSDIFF40/RLE/PTCH reference; altered patches in supervised workers with the
//! tracking allocator.
//! Part 3 (apatch.rs): patch entries inside archives (FLAG_PATCH_FILE + TPatchInfo) read through
//! `PatchChain::read_file`.
//! Part 4 (phist.rs): histories (add/remove/set-priority/clear/parallel add with reads in between) over
//! archives that hold full versions *and* patch entries of the same names.
mod apatch;
mod bspatch;
mod chain;
mod pcase;
mod phist;

use bspatch as bp;
use chain::{ChainCase, Op};
use pcase::{Alt, PatchCase};
use proptest::prelude::*;
use serde_json::{json, Value};
use vcheck::engine::supervise::{self, Outcome, Spec, TrackingAlloc};
use vcheck::engine::{self, pt, CaseResult, Check, Fail};
use wow_mpq::patch::{apply_patch, PatchFile};

#[global_allocator]
static GLOBAL: TrackingAlloc = TrackingAlloc;

/// Exclusion switch: alterations predicted to run into the open BSD0 length findings
/// (unchecked `32 + ctrl + diff` addition; buffers sized by declared patch-data size / size
/// after) are left out of the main batches and exercised by a fixed canary set instead.
// the three BSD0 length defects this switch steered around were fixed in /repo (known_findings.json): off
const EXCLUDE_KNOWN_BSD0_LENGTH_DEFECTS: bool = false;

fn alloc_limit(input_len: usize) -> usize {
    (64usize << 20).max(256 * input_len)
}

// ------------------------------------------------------------------------------ chain histories

fn chain_case_result(check: &Check, case: &ChainCase, level: usize, origin: &str) -> Vec<Fail> {
    let dir = engine::scratch("c08");
    let pool: Vec<String> = chain::POOL.iter().map(|s| s.to_string()).collect();
    let prep = match chain::prepare(&case.archives, dir.path(), pool) {
        Ok(p) => p,
        Err(why) => {
            check.bump("discarded_member_unhealthy", 1);
            check.sample("discard", || json!({"discarded": why}));
            return vec![];
        }
    };
    let rep = chain::run_history(&prep, &case.ops, case.probe_seed, level, true);
    let mixed = case.archives.iter().any(|a| a.files.iter().any(|f| !chain::POOL.contains(&f.name.as_str())));
    check.count(&format!("{origin}:{}", chain::classify(&case.ops, &rep, case.archives.len(), mixed)), rep.nontrivial());
    check.bump("chain_probes", rep.probes);
    check.bump("chain_probes_variant_spelling_of_present_name", rep.variant_hits);
    check.bump("chain_ops_not_executed_duplicate_add", rep.skipped_ops as u64);
    if rep.ambiguous {
        check.bump("chain_histories_with_unconstrained_tie", 1);
    }
    rep.fails
}

fn member_strategy(aid: usize) -> impl Strategy<Value = (u8, u16, Vec<(u8, u8, u8)>)> {
    (1u8..=4, 0u16..=2, proptest::collection::vec((0u8..6, 0u8..5, any::<u8>()), 0..=6)).prop_map(move |(v, s, f)| {
        let _ = aid;
        (v, s, f)
    })
}

fn op_strategy(n: u8) -> impl Strategy<Value = Op> {
    let prio = (0usize..chain::PRIOS.len()).prop_map(|i| chain::PRIOS[i]);
    prop_oneof![
        5 => (0..n, prio.clone()).prop_map(|(a, prio)| Op::Add { a, prio }),
        2 => (0..n).prop_map(|a| Op::Remove { a }),
        4 => (0..n, prio).prop_map(|(a, prio)| Op::SetPriority { a, prio }),
        1 => Just(Op::Clear),
        2 => (proptest::collection::vec((0..n, (0usize..chain::PRIOS.len()).prop_map(|i| chain::PRIOS[i])), 1..=3), prop_oneof![2 => Just(255u8), 1 => 0u8..4]).prop_map(|(items, bad)| Op::AddBatch { items, bad }),
    ]
}

fn chain_strategy() -> impl Strategy<Value = ChainCase> {
    (1usize..=4, any::<bool>()).prop_flat_map(|(n, mixed)| {
        (
            proptest::collection::vec(member_strategy(0), n),
            proptest::collection::vec(op_strategy(n as u8), 5..=25),
            any::<u32>(),
        )
            .prop_map(move |(ms, ops, probe_seed)| ChainCase {
                archives: ms
                    .iter()
                    .enumerate()
                    .map(|(i, (v, s, f))| {
                        let f: Vec<(u8, u8, u8)> = f.iter().map(|&(n, sp, var)| (n, if mixed { sp } else { 0 }, var)).collect();
                        chain::member_spec(i, *v, *s, &f)
                    })
                    .collect(),
                ops,
                probe_seed,
            })
    })
}

fn exhaustive_histories(check: &Check) {
    let maxlen = check.tier.pick(3usize, 4);
    let configs: Vec<(bool, [i32; 3], usize)> = match check.tier {
        engine::Tier::Quick => vec![(true, [-5, 0, 100], maxlen), (false, [i32::MIN, 0, i32::MAX], 2)],
        engine::Tier::Thorough => vec![(true, [-5, 0, 100], maxlen), (false, [i32::MIN, 0, i32::MAX], 3)],
    };
    let mut total = 0u64;
    for (mixed, prios, maxlen) in configs {
        let specs = chain::fixed_members(mixed);
        let dir = engine::scratch("c08x");
        let pool: Vec<String> = chain::POOL.iter().map(|s| s.to_string()).collect();
        let prep = match chain::prepare(&specs, dir.path(), pool) {
            Ok(p) => p,
            Err(why) => {
                check.inconclusive(&format!("fixed members of the exhaustive part are unhealthy: {why}"));
                return;
            }
        };
        let alpha = chain::alphabet(3, &prios);
        let n = alpha.len() as u64;
        // index space: all sequences of length 0..=maxlen
        let mut offsets = vec![0u64];
        for l in 0..=maxlen {
            offsets.push(offsets[l] + n.pow(l as u32));
        }
        let all = *offsets.last().unwrap();
        total += all;
        let next = std::sync::atomic::AtomicU64::new(0);
        std::thread::scope(|sc| {
            for _ in 0..engine::WORKERS {
                sc.spawn(|| loop {
                    let start = next.fetch_add(256, std::sync::atomic::Ordering::Relaxed);
                    if start >= all {
                        break;
                    }
                    for idx in start..(start + 256).min(all) {
                        let l = (0..=maxlen).rev().find(|&l| idx >= offsets[l]).unwrap();
                        let mut r = idx - offsets[l];
                        let mut ops = vec![];
                        for _ in 0..l {
                            ops.push(alpha[(r % n) as usize].clone());
                            r /= n;
                        }
                        let rep = chain::run_history(&prep, &ops, 7, 0, true);
                        check.count(&format!("ex:{}", chain::classify(&ops, &rep, 3, mixed)), rep.nontrivial());
                        check.bump("chain_probes", rep.probes);
                        check.bump("chain_ops_not_executed_duplicate_add", rep.skipped_ops as u64);
                        for f in &rep.fails {
                            let case = ChainCase { archives: specs.clone(), ops: ops.clone(), probe_seed: 7 };
                            check.fail(f, json!({"kind": "chain", "level": 0, "case": case}));
                        }
                        if l == maxlen && rep.nontrivial() {
                            check.sample(&format!("ex{}", idx % 3), || json!({"kind": "chain", "level": 0, "ops": ops, "members": "fixed_members", "prios": prios}));
                        }
                    }
                });
            }
        });
    }
    check.set_extra("exhaustive_histories", json!(total));
}

/// Chains far longer than the histories above (a client loads dozens of archives): 26 members that all hold
/// the same names, priorities with long runs of ties, added in list order, through from_archives_parallel
/// (both list orders) and through a sequential prefix plus add_archives_parallel — earliest added wins ties.
fn many_members(check: &Check) {
    for (round, n) in [(0usize, 26usize), (1, 21), (2, 40)] {
        let specs: Vec<vcheck::gens::mpq::ArchiveSpec> = (0..n).map(|a| chain::member_spec(a, 1 + (a % 2) as u8, 0, &[(0, 0, 1), (2, 0, 0), ((a % 6) as u8, 0, 2)])).collect();
        let dir = engine::scratch("c08m");
        let pool: Vec<String> = chain::POOL.iter().map(|s| s.to_string()).collect();
        let prep = match chain::prepare(&specs, dir.path(), pool) {
            Ok(p) => p,
            Err(why) => {
                check.inconclusive(&format!("members of the long chain are unhealthy: {why}"));
                return;
            }
        };
        let prios = [0i32, 0, 5, 0, 0, 5, -1, 0];
        let ops: Vec<Op> = (0..n).map(|a| Op::Add { a: a as u8, prio: prios[(a * (round + 1) + round) % prios.len()] }).collect();
        let rep = chain::run_history(&prep, &ops, 11 + round as u32, 0, true);
        check.count(&format!("long-chain:{n}-members"), true);
        check.bump("chain_probes", rep.probes);
        for f in &rep.fails {
            let f2 = Fail::new(format!("long-chain:{}", f.signature), format!("{n} members: {}", f.message));
            check.fail(&f2, json!({"kind": "long-chain", "members": n, "round": round}));
        }
    }
}

/// Names that differ only in the case of a non-ASCII letter are different MPQ names (the name
/// hash folds ASCII only). The chain's lookup key uses full Unicode upper-casing.
fn unicode_canary(check: &Check) {
    let pairs = [("dir\\\u{e4}rger.txt", "dir\\\u{c4}rger.txt"), ("stra\u{df}e.txt", "strasse.txt")];
    for (i, (n0, n1)) in pairs.iter().enumerate() {
        let mk = |aid: usize, name: &str| {
            let mut s = chain::member_spec(aid, 1, 0, &[(0, 0, 0)]);
            s.files[0].name = name.to_string();
            s
        };
        let specs = vec![mk(0, n0), mk(1, n1)];
        let dir = engine::scratch("c08u");
        let prep = match chain::prepare(&specs, dir.path(), vec![n0.to_string(), n1.to_string()]) {
            Ok(p) => p,
            Err(why) => {
                check.bump("unicode_canary_discarded", 1);
                check.sample("udiscard", || json!({"discarded": why}));
                continue;
            }
        };
        let ops = [Op::Add { a: 0, prio: 100 }, Op::Add { a: 1, prio: 0 }];
        let rep = chain::run_history(&prep, &ops, 1, 0, false);
        check.count(&format!("canary:non-ascii-case-pair{i}"), true);
        if !rep.fails.is_empty() {
            let what: Vec<String> = rep.fails.iter().map(|f| f.message.clone()).collect();
            let f = Fail::new("chain:non-ascii-names-conflated", format!("members hold the distinct names {n0:?} and {n1:?}: {}", what.join("; ")));
            check.fail(&f, json!({"kind": "chain-names", "names": [n0, n1], "ops": ops}));
        }
    }
}

// ------------------------------------------------------------------------------- patch files

#[derive(Debug)]
enum Verdict {
    Err(String),
    OkVerified,
}

/// parse + apply with the allocation limits armed; judge an `Ok` against the declared digests
fn judge_patch(bytes: &[u8], base: &[u8], limits: bool) -> Result<(Verdict, Option<Vec<u8>>), Fail> {
    if limits {
        supervise::set_alloc_limits(alloc_limit(bytes.len() + base.len()), 1 << 30);
    }
    let r = engine::guard("PatchFile::parse", || PatchFile::parse(bytes)).and_then(|p| match p {
        Err(e) => Ok(Err(e)),
        Ok(p) => engine::guard("apply_patch", || apply_patch(&p, base)),
    });
    if limits {
        supervise::clear_alloc_limits();
    }
    match r? {
        Err(e) => Ok((Verdict::Err(e.to_string()), None)),
        Ok(x) => {
            // an Ok implies the file had a complete header
            let declared_after = &bytes[bp::off::MD5_AFTER..bp::off::MD5_AFTER + 16];
            let declared_before = &bytes[bp::off::MD5_BEFORE..bp::off::MD5_BEFORE + 16];
            if bp::md5(&x) != declared_after {
                return Err(Fail::new(
                    "patch:result-digest-differs-from-declared",
                    format!("apply_patch returned {} bytes with MD5 {} but the patch declares {}", x.len(), hex::encode(bp::md5(&x)), hex::encode(declared_after)),
                ));
            }
            if bp::md5(base) != declared_before {
                return Err(Fail::new(
                    "patch:applied-to-base-with-other-digest",
                    format!("apply_patch succeeded although the base has MD5 {} and the patch declares {}", hex::encode(bp::md5(base)), hex::encode(declared_before)),
                ));
            }
            Ok((Verdict::OkVerified, Some(x)))
        }
    }
}

fn wellformed(check: &Check, case: &PatchCase, origin: &str) -> CaseResult {
    let b = case.build();
    let kind = if case.is_bsd0() { "BSD0" } else { "COPY" };
    // generator self-check: the reference applier must reproduce the edit script's result
    match b.ptch.apply(&b.base, case.incl_header) {
        Ok(x) if x == b.new => {}
        other => {
            check.inconclusive(&format!("harness: reference applier disagrees with the diff builder on {case:?}: {:?}", other.map(|x| x.len())));
            return Ok(());
        }
    }
    if bp::Ptch::parse(&b.bytes).map(|p| p != b.ptch).unwrap_or(true) {
        check.inconclusive("harness: PTCH framing does not re-parse");
        return Ok(());
    }
    let (v, x) = judge_patch(&b.bytes, &b.base, false)?;
    let ok = matches!(v, Verdict::OkVerified);
    if let Some(x) = x {
        if x != b.new {
            return Err(Fail::new(
                format!("patch:wellformed:{kind}:result-differs-from-reference"),
                format!("apply_patch returned {} bytes, the reference result has {} bytes (first difference at {:?})", x.len(), b.new.len(), x.iter().zip(b.new.iter()).position(|(a, c)| a != c)),
            ));
        }
    }
    let interesting = b.built.ctrl.len() >= 2 || b.built.neg_seeks > 0;
    if ok && origin == "wf-grid" {
        for (on, key) in [
            (!case.is_bsd0(), "COPY"),
            (case.is_bsd0() && b.built.ctrl.len() >= 2, "BSD0 with ≥2 control triples"),
            (case.is_bsd0() && b.built.neg_seeks > 0, "BSD0 with a negative seek"),
            (case.is_bsd0() && b.built.overruns > 0, "BSD0 copying past the end of the base"),
            (case.is_bsd0() && bp::rle_has_interior_zero_run(&b.ptch.payload), "BSD0 whose RLE stream has a zero-run token before a literal token"),
            (case.is_bsd0() && bp::rle_longest_literal(&b.ptch.payload) == 128, "BSD0 whose RLE stream has a 128-byte literal token"),
            (case.is_bsd0() && case.rle().max_lit == 1, "BSD0 packed with 1-byte tokens"),
            (case.is_bsd0() && case.rle().omit_trailing_zeros, "BSD0 with trailing zeros left to the decoder"),
            (case.is_bsd0() && case.incl_header, "BSD0 with patch-data size counting the header"),
            (case.is_bsd0() && !case.incl_header, "BSD0 with patch-data size of the payload only"),
            (b.base.is_empty(), "empty base"),
            (b.new.is_empty(), "empty result"),
        ] {
            if on {
                check.bump(&format!("essential_accepted:{key}"), 1);
            }
        }
    }
    check.count(&format!("{origin}:{}:{}", pcase::shape(case, &b), if ok { "ok" } else { "err" }), ok && interesting);
    check.bump(&format!("wellformed_{kind}_{}", if ok { "accepted" } else { "rejected" }), 1);
    if b.built.neg_seeks_interior > 0 {
        check.bump(&format!("wellformed_BSD0_with_interior_negative_seek_{}", if ok { "accepted" } else { "rejected" }), 1);
    } else if case.is_bsd0() && b.built.neg_seeks > 0 {
        check.bump(&format!("wellformed_BSD0_with_negative_seek_to_start_{}", if ok { "accepted" } else { "rejected" }), 1);
    }
    if let Verdict::Err(e) = &v {
        let key: String = e.chars().filter(|c| !c.is_ascii_digit()).take(40).collect();
        check.sample(&format!("wf-err:{key}"), || json!({"kind": "patch", "case": case, "rejected_with": e}));
    } else if interesting {
        check.sample(&format!("wf-ok:{kind}:{}", b.built.ctrl.len().min(3)), || json!({"kind": "patch", "case": case, "patch_len": b.bytes.len(), "new_len": b.new.len()}));
    }
    Ok(())
}

// ------------------------------------------------------------------- altered patches (workers)

/// Mirrors the order of the applier's checks far enough to tell which declared length a
/// request for memory / an overflowing addition would come from. Used only to steer around the
/// open findings and to name the cause of a worker death — never to judge a result.
fn known_risk(bytes: &[u8], base: &[u8]) -> Option<&'static str> {
    let p = bp::Ptch::parse(bytes).ok()?;
    if p.sig != bp::SIG_PTCH || p.md5_sig != bp::SIG_MD5 || p.md5_block_size != 40 || p.xfrm_sig != bp::SIG_XFRM || p.ptype != bp::T_BSD0 {
        return None;
    }
    if p.size_before as usize != base.len() || p.md5_before != bp::md5(base) {
        return None;
    }
    let limit = alloc_limit(bytes.len() + base.len());
    if p.patch_data_size as usize > limit {
        return Some("rle-buffer-sized-by-declared-patch-data-size");
    }
    let blob = bp::rle_decode(&p.payload, p.patch_data_size as usize).ok()?;
    if blob.len() < 32 || blob[..8] != bp::SIG_BSDIFF40.to_le_bytes() {
        return None;
    }
    let w = |o: usize| u64::from_le_bytes(blob[o..o + 8].try_into().unwrap());
    let (ctrl, data, new) = (w(8), w(16), w(24));
    if new != p.size_after as u64 {
        return None;
    }
    let end = match 32u64.checked_add(ctrl).and_then(|x| x.checked_add(data)) {
        None => return Some("unchecked-addition-of-bsdiff-block-sizes"),
        Some(e) => e,
    };
    if end <= blob.len() as u64 && p.size_after as usize > limit {
        return Some("output-buffer-sized-by-declared-size-after");
    }
    None
}

fn worker() -> ! {
    engine::install_panic_hook();
    supervise::worker_loop(|v| {
        let case: PatchCase = match serde_json::from_value(v["case"].clone()) {
            Ok(c) => c,
            Err(e) => return json!({"bad": format!("{e}")}),
        };
        let alts: Vec<Alt> = match serde_json::from_value(v["alts"].clone()) {
            Ok(c) => c,
            Err(e) => return json!({"bad": format!("{e}")}),
        };
        let skip: Vec<usize> = serde_json::from_value(v["skip"].clone()).unwrap_or_default();
        let b = case.build();
        let mut codes = String::with_capacity(alts.len());
        let mut fails = vec![];
        for (k, alt) in alts.iter().enumerate() {
            if skip.contains(&k) {
                codes.push('D');
                continue;
            }
            eprintln!("ALT {k}");
            let (bytes, base) = pcase::apply_alt(&case, &b, alt);
            let unchanged = bytes == b.bytes && base == b.base;
            match judge_patch(&bytes, &base, true) {
                Ok((Verdict::Err(_), _)) => codes.push(if unchanged { 'e' } else { 'E' }),
                Ok((Verdict::OkVerified, x)) => {
                    if unchanged && x.as_deref() != Some(&b.new[..]) {
                        fails.push(json!({"k": k, "sig": "patch:wellformed:result-differs-from-reference", "msg": "unaltered patch accepted with a result that differs from the reference"}));
                    }
                    codes.push(if unchanged { 'N' } else { 'K' })
                }
                Err(f) => {
                    codes.push('F');
                    fails.push(json!({"k": k, "sig": f.signature, "msg": f.message}));
                }
            }
        }
        json!({"codes": codes, "fails": fails})
    })
}

struct Batch {
    case: PatchCase,
    alts: Vec<Alt>,
    nontrivial: bool,
}

fn make_batch(check: &Check, case: &PatchCase, payload_samples: usize, seed: u64, exclude: bool) -> Batch {
    let b = case.build();
    let mut alts = pcase::plan(case, &b, payload_samples, seed);
    if exclude {
        alts.retain(|alt| {
            let risky_kind = match alt {
                Alt::Byte { off, .. } => (*off as usize) < bp::off::MD5_SIG,
                Alt::Hdr { .. } | Alt::UnpackedSize { .. } | Alt::Inner { .. } | Alt::InnerPair { .. } => true,
                _ => false,
            };
            if !risky_kind {
                return true;
            }
            let (bytes, base) = pcase::apply_alt(case, &b, alt);
            match known_risk(&bytes, &base) {
                Some(why) => {
                    check.bump(&format!("excluded_alterations:{why}"), 1);
                    false
                }
                None => true,
            }
        });
    }
    Batch { case: case.clone(), alts, nontrivial: b.built.ctrl.len() >= 2 || b.built.neg_seeks > 0 }
}

fn death_fail(case: &PatchCase, alt: &Alt, how: &str, stderr: &str) -> Fail {
    let b = case.build();
    let (bytes, base) = pcase::apply_alt(case, &b, alt);
    let cause = known_risk(&bytes, &base);
    let frame = stderr
        .lines()
        .find(|l| l.contains("ALLOC-LIMIT"))
        .and_then(|l| l.split("frames=").nth(1))
        .and_then(|f| f.split(" | ").next())
        .map(|f| f.split(" at ").next().unwrap_or("").trim().trim_start_matches(|c: char| c.is_ascii_digit() || c == ':' || c == ' ').to_string())
        .unwrap_or_default();
    match how {
        "alloc-limit" | "oom" => Fail::new(
            format!("alloc-out-of-proportion@apply_patch:{}", cause.unwrap_or("other")),
            format!("parse+apply of a {}-byte patch on a {}-byte base asked for memory beyond max(64 MiB, 256 × input) [{frame}]: {}", bytes.len(), base.len(), stderr.lines().find(|l| l.contains("ALLOC-LIMIT")).map(|l| engine::truncate(l, 160)).unwrap_or_default()),
        ),
        other => Fail::new(format!("worker-{other}@apply_patch:{}", cause.unwrap_or("other")), format!("worker died ({other}) on alteration {alt:?}: {}", engine::truncate(stderr, 300))),
    }
}

/// Run batches through supervised workers; a death is attributed to the in-flight alteration,
/// which is then skipped when the batch is resubmitted.
fn run_batches(check: &Check, spec: &Spec, batches: &[Batch], origin: &str) {
    let mut pending: Vec<(usize, Vec<usize>)> = (0..batches.len()).map(|i| (i, vec![])).collect();
    let mut rounds = 0;
    while !pending.is_empty() {
        rounds += 1;
        if rounds > 200 {
            check.inconclusive("altered-patch batches keep dying (more than 200 resubmissions)");
            return;
        }
        let cases: Vec<Value> = pending.iter().map(|(i, skip)| json!({"case": batches[*i].case, "alts": batches[*i].alts, "skip": skip})).collect();
        let outs = supervise::run_cases(spec, &cases, engine::WORKERS);
        let mut next = vec![];
        for ((bi, skip), out) in pending.iter().zip(outs.iter()) {
            let batch = &batches[*bi];
            let kind = if batch.case.is_bsd0() { "BSD0" } else { "COPY" };
            match out {
                Outcome::Done(v) => {
                    if let Some(bad) = v.get("bad") {
                        check.inconclusive(&format!("worker could not decode a batch: {bad}"));
                        continue;
                    }
                    let codes = v["codes"].as_str().unwrap_or("");
                    if codes.chars().count() != batch.alts.len() {
                        check.inconclusive("worker answered with a result list of the wrong length");
                        continue;
                    }
                    for (alt, code) in batch.alts.iter().zip(codes.chars()) {
                        let outcome = match code {
                            'E' => "err",
                            'K' => "ok-verified",
                            'e' => "unchanged-err",
                            'N' => "unchanged-ok",
                            'D' => "died",
                            _ => "fail",
                        };
                        check.count(&format!("{origin}:{kind}:{}:{outcome}", alt.kind()), batch.nontrivial && matches!(code, 'E' | 'K'));
                        check.bump(&format!("altered_{outcome}"), 1);
                    }
                    for f in v["fails"].as_array().cloned().unwrap_or_default() {
                        let k = f["k"].as_u64().unwrap_or(0) as usize;
                        let fail = Fail::new(f["sig"].as_str().unwrap_or("?"), f["msg"].as_str().unwrap_or(""));
                        check.fail(&fail, json!({"kind": "altered", "case": batch.case, "alt": batch.alts[k]}));
                    }
                    check.sample(&format!("alt:{kind}"), || json!({"kind": "altered-batch", "case": batch.case, "alterations": batch.alts.len(), "outcomes": codes.chars().take(120).collect::<String>()}));
                }
                Outcome::Died { how, stderr_tail } => {
                    let k = stderr_tail.lines().rev().find_map(|l| l.strip_prefix("ALT ").and_then(|n| n.trim().parse::<usize>().ok()));
                    let Some(k) = k.filter(|k| *k < batch.alts.len() && !skip.contains(k)) else {
                        check.inconclusive(&format!("worker died ({how}) outside an alteration: {}", engine::truncate(stderr_tail, 200)));
                        continue;
                    };
                    if how == "cpu-limit" {
                        check.inconclusive(&format!("apply_patch exhausted the CPU budget on {:?} (termination is not part of C08)", batch.alts[k]));
                    } else {
                        let fail = death_fail(&batch.case, &batch.alts[k], how, stderr_tail);
                        check.fail(&fail, json!({"kind": "altered", "case": batch.case, "alt": batch.alts[k]}));
                    }
                    let mut s = skip.clone();
                    s.push(k);
                    next.push((*bi, s));
                }
                Outcome::Deadlock { .. } => check.inconclusive("patch worker made no progress and burned no CPU"),
            }
        }
        pending = next;
    }
}

fn sample_cases(check: &Check, label: &str, n: usize) -> Vec<PatchCase> {
    use proptest::strategy::ValueTree;
    let mut seed = [0u8; 32];
    seed[..8].copy_from_slice(&check.sub_seed(label).to_le_bytes());
    let mut runner = proptest::test_runner::TestRunner::new_with_rng(
        proptest::test_runner::Config { failure_persistence: None, ..Default::default() },
        proptest::test_runner::TestRng::from_seed(proptest::test_runner::RngAlgorithm::ChaCha, &seed),
    );
    let strat = pcase::case_strategy();
    (0..n).map(|_| strat.new_tree(&mut runner).expect("gen").current()).collect()
}

// -------------------------------------------------------------------------------------- driver

fn replay(check: &Check, spec: &Spec, p: &std::path::Path) {
    let v: Value = serde_json::from_str(&std::fs::read_to_string(p).expect("replay file")).expect("json");
    let c = &v["case"];
    match c["kind"].as_str().unwrap_or("") {
        "chain" => {
            let case: ChainCase = serde_json::from_value(c["case"].clone()).expect("chain case");
            let level = c["level"].as_u64().unwrap_or(1) as usize;
            for f in chain_case_result(check, &case, level, "replay") {
                check.fail(&f, c.clone());
            }
        }
        "chain-names" => unicode_canary(check),
        "long-chain" => many_members(check),
        "patch" => {
            let case: PatchCase = serde_json::from_value(c["case"].clone()).expect("patch case");
            if let Err(f) = engine::guard("wellformed", || wellformed(check, &case, "replay")).and_then(|x| x) {
                check.fail(&f, c.clone());
            }
        }
        "altered" => {
            let case: PatchCase = serde_json::from_value(c["case"].clone()).expect("patch case");
            let alt: Alt = serde_json::from_value(c["alt"].clone()).expect("alteration");
            let b = case.build();
            let batch = Batch { case, alts: vec![alt], nontrivial: b.built.ctrl.len() >= 2 };
            run_batches(check, spec, &[batch], "replay");
        }
        "archive-patch" => {
            let case: apatch::ArchCase = serde_json::from_value(c["case"].clone()).expect("archive-patch case");
            if let Err(f) = engine::guard("archive-patch", || apatch::run(check, &case, "replay")).and_then(|x| x) {
                check.fail(&f, c.clone());
            }
        }
        "patch-history" => {
            let case: phist::PhCase = serde_json::from_value(c["case"].clone()).expect("patch-history case");
            let fails = match engine::guard("patch-history", || phist::run_case(check, &case, "replay")) {
                Ok(f) => f,
                Err(f) => vec![f],
            };
            for f in fails {
                check.fail(&f, c.clone());
            }
        }
        k => {
            eprintln!("unknown replay kind {k:?}");
            std::process::exit(2)
        }
    }
    check.count("replay-pad", true);
    check.finish();
}

fn main() {
    let args: Vec<String> = std::env::args().collect();
    if args.get(1).map(|s| s.as_str()) == Some("--worker") {
        worker();
    }
    let (check, _a) = Check::new("C08", "exploration");
    check.set_rule(
        "(1) chain histories: up to 4 member archives (V1–V4, ArchiveBuilder with generated listfile, 0–6 files from a pool of 6 logical names stored under canonical/upper/lower/forward-slash/mixed spellings, \
         each version distinguishable by bytes and size) and operations Add/Remove/SetPriority/Clear with priorities from {-5,0,0,100,100,i32::MIN,i32::MAX}; after every operation every pool name under up to 5 spellings plus 3 absent names goes \
         through read_file/contains_file/find_file_archive and list() is compared with the union; the final member set is rebuilt with from_archives_parallel (given and reversed order) and sequential-prefix + add_archives_parallel. \
         Bounded-exhaustive: every operation sequence of length ≤3 (thorough ≤4) over 3 fixed members × 3 priorities (22 letters), random: 5–25 operations. non-trivial = a tie at the top priority for a probed name, or a Remove/SetPriority that changes a winner; \
         distinct = members × length class × operation kinds × flags. (2) patch files: base blobs 0–8 KiB (8 content classes) and COPY / BSD0 patches built from edit scripts of 0–8 control triples (copy+diff, insert, forward/backward/to-start/negative-zero seeks, copies running past the end of the base), \
         RLE-packed with varying token limits (runs at 127/128/129), both readings of the declared patch-data size; well-formed patches in process, altered patches (every header byte × {^1,^0x80,=0,=0xFF}, sampled/all payload bytes, boundary values in every outer and inner length field, ctrl-triple words, truncation, extension, changed base) in supervised workers with an allocation limit of max(64 MiB, 256 × input). \
         non-trivial = accepted patch with ≥2 control triples or a negative seek (altered: such a patch with a byte-changing alteration); distinct = type × size classes × triple count × seek kind × RLE style × outcome (altered: type × altered field × value class × outcome). \
         (3) archive-level: base archive + 1–2 patch archives whose entries carry FLAG_PATCH_FILE + TPatchInfo (independent MPQ writer; single-unit raw/zlib and sectored zlib), read through PatchChain::read_file. \
         (4) patch histories: 2–6 member archives that hold, for two names, nothing / a full version / a patch entry (COPY or BSD0, three storages) from content i to content j of a small content table, \
         and histories of Add/Remove/SetPriority/Clear/add_archives_parallel with a per-operation read flag (reads between the operations); every read is judged from the present member set (full winner: its bytes; patch winner: error, or the declared content \
         and then derivable from a present full version through present patch entries) and compared with a chain freshly built from the same members (sequential ascending, insertion order, from_archives_parallel). Deterministic grid: 16 templates (base removed / replaced, \
         intermediate patch removed, order below the winner changed, clear, error-then-base-added, parallel re-add, ties …) × 3 universes × 2 read masks; bounded-exhaustive: every sequence of ≤3 (thorough ≤4) letters from 13 operations after loading base + 2 patches and reading once; \
         random: free and coherent (lineage) universes, 3–14 operations. non-trivial = a patch entry stays the winner between two reads while the holders around it change; distinct = members × length × operation kinds × read mask × patch types × which of the three change classes × outcomes.",
    );
    check.assume("member archives carry a complete (listfile) (documented precondition of the chain's index); a case whose member archive is not healthy on its own is discarded and counted");
    check.assume("adding a path that is already a member is outside the statement: such an Add is not executed (counted as chain_ops_not_executed_duplicate_add)");
    check.assume("after set_priority the moved archive's rank among equal priorities is unconstrained: an archive is only required to lose a tie against one that precedes it both by insertion and by last re-prioritisation");
    check.assume("name identity is the MPQ one: ASCII case-insensitive, '/' = '\\'");
    check.assume("md-5 crate implements MD5; the reference RLE/BSDIFF40/PTCH code in bspatch.rs follows the published format (a disagreement between reference and diff builder is reported as inconclusive, never as a violation)");
    check.assume("an Err from parse/apply_patch is always permitted by the statement; acceptance rates are reported in counters and an all-Err well-formed run is inconclusive");

    let spec = Spec { cpu_secs: 60, wall_grace_secs: 90, rlimit_as: 16 << 30, ..Spec::new("patch") };

    if let Some(p) = check.replay.clone() {
        replay(&check, &spec, &p);
    }

    // ---- part 1: chain histories
    exhaustive_histories(&check);
    many_members(&check);
    unicode_canary(&check);
    pt::run(
        &check,
        "chain-random",
        check.tier.pick(1600u32, 40_000),
        pt::Opts { max_shrink_iters: 400, ..Default::default() },
        chain_strategy,
        |c| json!({"kind": "chain", "level": 1, "case": c}),
        |c| {
            let fails = chain_case_result(&check, c, 1, "rnd");
            // count every known one; hand the first unknown one to the driver (a signature that is
            // new in this run is preferred over one that was already reported)
            let mut unknown: Vec<Fail> = vec![];
            for f in fails {
                if check.is_known(&f.signature) {
                    if !pt::suppressed() {
                        check.known_hit(&f.signature, &f.message);
                    }
                } else {
                    unknown.push(f);
                }
            }
            let pick = unknown.iter().position(|f| !check.already_reported(&f.signature)).unwrap_or(0);
            if unknown.is_empty() { Ok(()) } else { Err(unknown.swap_remove(pick)) }
        },
    );

    // ---- part 2a: well-formed patches
    for case in pcase::grid() {
        if let Err(f) = engine::guard("wellformed", || wellformed(&check, &case, "wf-grid")).and_then(|x| x) {
            check.fail(&f, json!({"kind": "patch", "case": case}));
        }
    }
    pt::run(
        &check,
        "patch-wellformed",
        check.tier.pick(6000u32, 200_000),
        pt::Opts::default(),
        pcase::case_strategy,
        |c| json!({"kind": "patch", "case": c}),
        |c| wellformed(&check, c, "wf"),
    );
    for kind in ["COPY", "BSD0"] {
        if check.counter(&format!("wellformed_{kind}_accepted")) == 0 {
            check.inconclusive(&format!("no well-formed {kind} patch was accepted: the differential says nothing about {kind}"));
        }
    }
    if check.classes_with_prefix("wf-grid:BSD0") == 0 || check.classes_with_prefix("wf-grid:COPY") == 0 {
        check.inconclusive("patch grid is empty");
    }
    // acceptance classes the grid reaches by construction: if the applier accepts none of a class,
    // the differential is silent about it (an Err is always allowed) and the run is not a pass
    for key in [
        "COPY",
        "BSD0 with ≥2 control triples",
        "BSD0 with a negative seek",
        "BSD0 copying past the end of the base",
        "BSD0 whose RLE stream has a zero-run token before a literal token",
        "BSD0 whose RLE stream has a 128-byte literal token",
        "BSD0 packed with 1-byte tokens",
        "BSD0 with trailing zeros left to the decoder",
        "BSD0 with patch-data size counting the header",
        "BSD0 with patch-data size of the payload only",
        "empty base",
        "empty result",
    ] {
        if check.counter(&format!("essential_accepted:{key}")) == 0 {
            check.inconclusive(&format!("no grid patch of the class '{key}' was accepted: vacuous for that class"));
        }
    }

    // ---- part 2b: altered patches
    let grid = pcase::grid();
    let mut bases: Vec<PatchCase> = vec![];
    // a small patch of each type gets every payload position
    let small: Vec<PatchCase> = grid.iter().filter(|c| c.base.len <= 300).cloned().collect();
    let n_small = check.tier.pick(6usize, small.len());
    let n_grid = check.tier.pick(10usize, grid.len());
    bases.extend(grid.iter().step_by((grid.len() / n_grid).max(1)).cloned());
    bases.extend(sample_cases(&check, "altered-bases", check.tier.pick(24usize, 500)));
    let mut batches: Vec<Batch> = vec![];
    for (i, c) in small.iter().step_by((small.len() / n_small).max(1)).enumerate() {
        batches.push(make_batch(&check, c, usize::MAX, check.sub_seed(&format!("plan-small{i}")), EXCLUDE_KNOWN_BSD0_LENGTH_DEFECTS));
    }
    for (i, c) in bases.iter().enumerate() {
        batches.push(make_batch(&check, c, check.tier.pick(40usize, 160), check.sub_seed(&format!("plan{i}")), EXCLUDE_KNOWN_BSD0_LENGTH_DEFECTS));
    }
    check.set_extra("altered_patch_batches", json!(batches.len()));
    run_batches(&check, &spec, &batches, "alt");

    // ---- part 2c: canaries for the excluded region (fixed, seed-independent)
    let mut canaries = vec![];
    for c in grid.iter().filter(|c| c.is_bsd0()).skip(3).step_by(11).take(3) {
        let b = c.build();
        let mut alts: Vec<Alt> = pcase::plan(c, &b, 8, 1).into_iter().filter(|a| {
            let (bytes, base) = pcase::apply_alt(c, &b, a);
            known_risk(&bytes, &base).is_some()
        }).collect();
        // one representative per (kind) is enough to keep the finding measured
        let mut seen = std::collections::BTreeSet::new();
        alts.retain(|a| seen.insert(a.kind()));
        canaries.push(Batch { case: c.clone(), alts, nontrivial: true });
    }
    if canaries.iter().all(|b| b.alts.is_empty()) {
        check.inconclusive("canary set for the BSD0 length findings is empty");
    }
    run_batches(&check, &spec, &canaries, "canary");

    // ---- part 3: patch entries inside archives
    apatch::run_all(&check);

    // ---- part 4: histories over archives with patch entries
    phist::run_all(&check);

    check.finish();
}
