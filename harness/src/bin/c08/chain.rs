//! Chain histories: operations interpreted against the real `PatchChain` and a priority-list
//! model; after every operation all pool names are probed through the four query functions.
use serde::{Deserialize, Serialize};
use std::collections::{BTreeMap, BTreeSet};
use std::path::{Path, PathBuf};
use vcheck::engine::{self, Fail};
use vcheck::gens::mpq::*;
use vcheck::oracle::refcrypt as rc;
use wow_mpq::{Archive, PatchChain};

pub const PRIOS: [i32; 7] = [-5, 0, 0, 100, 100, i32::MIN, i32::MAX];

/// logical names of the pool (canonical spelling)
pub const POOL: [&str; 6] = [
    "Interface\\Icons\\Spell_Fire_01.blp",
    "World\\Maps\\Azeroth\\Azeroth_32_48.adt",
    "readme.txt",
    "DBFilesClient\\Spell.dbc",
    "Sound\\Music\\ZoneMusic\\theme 01.mp3",
    "a\\b.c",
];

pub fn fold(n: &str) -> String {
    String::from_utf8_lossy(&rc::fold(n.as_bytes())).into_owned()
}

#[derive(Clone, Debug, PartialEq, Eq, Serialize, Deserialize)]
pub enum Op {
    Add { a: u8, prio: i32 },
    Remove { a: u8 },
    SetPriority { a: u8, prio: i32 },
    Clear,
    /// `add_archives_parallel` with a batch; `bad` < 255: a path that is not an archive is put at
    /// that position of the batch (clamped to its length), so the call must fail
    AddBatch { items: Vec<(u8, i32)>, bad: u8 },
}

impl Op {
    pub fn kind(&self) -> &'static str {
        match self {
            Op::Add { .. } => "add",
            Op::Remove { .. } => "remove",
            Op::SetPriority { .. } => "set_priority",
            Op::Clear => "clear",
            Op::AddBatch { bad: 255, .. } => "add_batch",
            Op::AddBatch { .. } => "add_batch_failing",
        }
    }
}

#[derive(Clone, Debug, PartialEq, Eq, Serialize, Deserialize)]
pub struct ChainCase {
    pub archives: Vec<ArchiveSpec>,
    pub ops: Vec<Op>,
    pub probe_seed: u32,
}

/// spelling of a pool name as stored in an archive: 0 canonical, 1 upper, 2 lower, 3 forward
/// slashes, 4 mixed
pub fn spell(name: &str, sel: u8, seed: u32) -> String {
    match sel % 5 {
        0 => name.to_string(),
        1 => name.to_ascii_uppercase(),
        2 => name.to_ascii_lowercase(),
        3 => name.replace('\\', "/"),
        _ => spellings(name, seed).pop().unwrap(),
    }
}

/// A chain-member archive: files (pool index, spelling selector); content length and seed are
/// functions of (archive id, pool index) so that versions of one name differ in bytes and size.
pub fn member_spec(aid: usize, version: u8, shift: u16, files: &[(u8, u8, u8)]) -> ArchiveSpec {
    let mut seen = BTreeSet::new();
    let fs = files
        .iter()
        .filter(|(n, _, _)| seen.insert(*n))
        .map(|&(n, sp, variety)| {
            let big = variety % 4 == 3;
            FileSpec {
                name: spell(POOL[n as usize % POOL.len()], sp, aid as u32 * 31 + n as u32),
                class: [ContentClass::Text, ContentClass::Random, ContentClass::LowEntropy, ContentClass::Period][(variety as usize / 4) % 4],
                len: LenSpec { halves: if big { 3 } else { 0 }, delta: 24 + aid as i16 * 16 + n as i16 },
                seed: 1000 + aid as u32 * 100 + n as u32,
                method: [M_NONE, M_ZLIB, M_BZIP2][variety as usize % 3],
                enc: Enc::None,
                locale: 0,
            }
        })
        .collect();
    ArchiveSpec { version, shift, crcs: false, attrs: Attrs::None, listfile: true, compress_tables: false, table_method: M_ZLIB, files: fs }
}

pub struct Prepared {
    pub paths: Vec<PathBuf>,
    /// per archive: folded name → (stored spelling, content)
    pub files: Vec<BTreeMap<String, (String, Vec<u8>)>>,
    /// names probed (canonical spellings)
    pub pool: Vec<String>,
    pub _dir: Option<tempfile::TempDir>,
}

/// Build the archives and make sure each one is healthy on its own (otherwise the case says
/// nothing about the chain). Err = reason to discard.
pub fn prepare(specs: &[ArchiveSpec], dir: &Path, pool: Vec<String>) -> Result<Prepared, String> {
    let mut paths = vec![];
    let mut files = vec![];
    for (i, s) in specs.iter().enumerate() {
        let p = dir.join(format!("member{i}.mpq"));
        s.builder().build(&p).map_err(|e| format!("build of member {i} failed: {e}"))?;
        let mut m = BTreeMap::new();
        for (fi, f) in s.files.iter().enumerate() {
            m.insert(fold(&f.name), (f.name.clone(), s.content(fi)));
        }
        let mut a = Archive::open(&p).map_err(|e| format!("member {i} does not open: {e}"))?;
        for (k, (n, c)) in &m {
            match a.read_file(n) {
                Ok(d) if &d == c => {}
                Ok(_) => return Err(format!("member {i}: {k} reads back different bytes")),
                Err(e) => return Err(format!("member {i}: {k} unreadable: {e}")),
            }
        }
        let listed: BTreeSet<String> = a
            .list()
            .map_err(|e| format!("member {i}: list fails: {e}"))?
            .iter()
            .map(|e| fold(&e.name))
            .filter(|n| !n.starts_with('('))
            .collect();
        if listed != m.keys().cloned().collect() {
            return Err(format!("member {i}: own listing differs from its content"));
        }
        paths.push(p);
        files.push(m);
    }
    // versions of one name must be distinguishable
    for i in 0..files.len() {
        for j in i + 1..files.len() {
            for (k, (_, c)) in &files[i] {
                if let Some((_, d)) = files[j].get(k) {
                    if c == d {
                        return Err(format!("{k}: members {i} and {j} hold identical bytes"));
                    }
                }
            }
        }
    }
    Ok(Prepared { paths, files, pool, _dir: None })
}

#[derive(Clone, Debug)]
struct Member {
    a: usize,
    prio: i32,
    added: u64,
    touched: u64,
}

#[derive(Clone, Debug, Default)]
pub struct Model {
    members: Vec<Member>,
    clock: u64,
}

impl Model {
    fn pos(&self, a: usize) -> Option<usize> {
        self.members.iter().position(|m| m.a == a)
    }
    /// Archives that may legitimately serve `key`: holders with the highest priority, minus those
    /// that are later than another such holder both by insertion and by last re-prioritisation.
    fn acceptable(&self, prep: &Prepared, key: &str) -> Vec<usize> {
        let holders: Vec<&Member> = self.members.iter().filter(|m| prep.files[m.a].contains_key(key)).collect();
        let Some(top) = holders.iter().map(|m| m.prio).max() else {
            return vec![];
        };
        let tops: Vec<&&Member> = holders.iter().filter(|m| m.prio == top).collect();
        tops.iter()
            .filter(|c| !tops.iter().any(|d| d.a != c.a && d.added < c.added && d.touched < c.touched))
            .map(|c| c.a)
            .collect()
    }
    fn tie(&self, prep: &Prepared, key: &str) -> bool {
        let holders: Vec<&Member> = self.members.iter().filter(|m| prep.files[m.a].contains_key(key)).collect();
        match holders.iter().map(|m| m.prio).max() {
            Some(top) => holders.iter().filter(|m| m.prio == top).count() >= 2,
            None => false,
        }
    }
    fn union(&self, prep: &Prepared) -> BTreeSet<String> {
        self.members.iter().flat_map(|m| prep.files[m.a].keys().cloned()).collect()
    }
    pub fn from_list(list: &[(usize, i32)]) -> Model {
        let mut m = Model::default();
        for &(a, prio) in list {
            m.clock += 1;
            m.members.push(Member { a, prio, added: m.clock, touched: m.clock });
        }
        m
    }
}

fn err_kind(e: &wow_mpq::Error) -> String {
    format!("{e:?}").chars().take_while(|c| c.is_alphanumeric()).collect()
}

#[derive(Default, Debug)]
pub struct Report {
    pub fails: Vec<Fail>,
    pub tie: bool,
    pub ambiguous: bool,
    pub remove_changed: bool,
    pub setprio_changed: bool,
    pub max_members: usize,
    pub skipped_ops: usize,
    pub probes: u64,
    pub variant_hits: u64,
    pub failed_batch_left_members: bool,
}

impl Report {
    fn push(&mut self, sig: String, msg: String) {
        if !self.fails.iter().any(|f| f.signature == sig) {
            self.fails.push(Fail::new(sig, msg));
        }
    }
    pub fn nontrivial(&self) -> bool {
        self.tie || self.remove_changed || self.setprio_changed
    }
}

/// whose content is this?
fn owner(prep: &Prepared, key: &str, bytes: &[u8]) -> Option<usize> {
    (0..prep.files.len()).find(|&a| prep.files[a].get(key).map(|(_, c)| c.as_slice() == bytes).unwrap_or(false))
}

/// Probe every pool name under `level` spellings + absent names; compare with the model.
pub fn probe(ctx: &str, after: &str, chain: &mut PatchChain, model: &Model, prep: &Prepared, probe_seed: u32, level: usize, rep: &mut Report) {
    let mut names: Vec<(String, String, bool)> = vec![]; // (probe spelling, key, is variant spelling)
    for (i, n) in prep.pool.iter().enumerate() {
        let sp = spellings(n, probe_seed.wrapping_add(i as u32));
        let take: Vec<String> = match level {
            0 => vec![sp[0].clone(), n.to_ascii_uppercase().replace('\\', "/")],
            _ => sp,
        };
        for s in take {
            names.push((s.clone(), fold(n), s != *n));
        }
    }
    names.push(("no\\such\\file.xyz".into(), fold("no\\such\\file.xyz"), false));
    names.push(("readme.tx".into(), fold("readme.tx"), false));
    names.push(("".into(), String::new(), false));
    for (s, key, variant) in &names {
        rep.probes += 1;
        let acc = model.acceptable(prep, key);
        if model.tie(prep, key) {
            rep.tie = true;
        }
        if acc.len() > 1 {
            rep.ambiguous = true;
        }
        // the spelling stored in an acceptable archive, or a variant of it?
        let var = if acc.iter().any(|&a| prep.files[a][key].0 == *s) { "stored-spelling" } else { "variant-spelling" };
        if *variant && !acc.is_empty() {
            rep.variant_hits += 1;
        }
        let prio_of = |a: usize| model.members.iter().find(|m| m.a == a).map(|m| m.prio);
        let r = match engine::guard(&format!("{ctx}::read_file"), || chain.read_file(s)) {
            Ok(r) => r,
            Err(f) => {
                rep.push(f.signature, f.message);
                continue;
            }
        };
        let mut served: Option<usize> = None;
        match (&r, acc.is_empty()) {
            (Ok(d), true) => rep.push(
                format!("{ctx}:read_file:absent-name-read:after-{after}"),
                format!("{s:?} is in no member archive but read_file returned {} bytes (owner {:?})", d.len(), owner(prep, key, d)),
            ),
            (Err(_), true) => {}
            (Err(e), false) => rep.push(
                format!("{ctx}:read_file:present-name-not-read:{}:{var}:after-{after}", err_kind(e)),
                format!("{s:?} is held by member archive(s) {acc:?} but read_file fails: {e}"),
            ),
            (Ok(d), false) => match owner(prep, key, d) {
                Some(a) if acc.contains(&a) => served = Some(a),
                Some(a) => {
                    let top = prio_of(acc[0]);
                    let why = match prio_of(a) {
                        None => "removed-archive-still-served",
                        Some(p) if Some(p) < top => "lower-priority-version-returned",
                        Some(_) => "tie-not-won-by-earliest-added",
                    };
                    rep.push(
                        format!("{ctx}:read_file:{why}:{var}:after-{after}"),
                        format!("{s:?}: expected the version of archive {acc:?} (priority {top:?}), got the version of archive {a} (priority {:?}); members {:?}", prio_of(a), model.members),
                    );
                }
                None => rep.push(
                    format!("{ctx}:read_file:content-of-no-archive:{var}:after-{after}"),
                    format!("{s:?}: {} bytes returned that match no archive's version", d.len()),
                ),
            },
        }
        let c = chain.contains_file(s);
        if c != !acc.is_empty() {
            rep.push(
                format!("{ctx}:contains_file:{}:{var}:after-{after}", if c { "true-for-absent-name" } else { "false-for-present-name" }),
                format!("contains_file({s:?}) = {c}, model holders {acc:?}"),
            );
        }
        let f = chain.find_file_archive(s).map(|p| p.to_path_buf());
        match (f, acc.is_empty()) {
            (None, true) => {}
            (Some(p), true) => rep.push(format!("{ctx}:find_file_archive:some-for-absent-name:after-{after}"), format!("find_file_archive({s:?}) = {p:?}")),
            (None, false) => rep.push(format!("{ctx}:find_file_archive:none-for-present-name:{var}:after-{after}"), format!("find_file_archive({s:?}) = None, model holders {acc:?}")),
            (Some(p), false) => {
                let a = prep.paths.iter().position(|q| *q == p);
                match a {
                    Some(a) if acc.contains(&a) => {
                        if let Some(sv) = served {
                            if sv != a {
                                rep.push(
                                    format!("{ctx}:find_file_archive:disagrees-with-read_file:after-{after}"),
                                    format!("{s:?}: read_file served archive {sv}, find_file_archive names archive {a}"),
                                );
                            }
                        }
                    }
                    _ => rep.push(
                        format!("{ctx}:find_file_archive:wrong-archive:{var}:after-{after}"),
                        format!("find_file_archive({s:?}) = {p:?} (archive {a:?}), acceptable {acc:?}; members {:?}", model.members),
                    ),
                }
            }
        }
    }
    // listing
    match engine::guard(&format!("{ctx}::list"), || chain.list()) {
        Err(f) => rep.push(f.signature, f.message),
        Ok(Err(e)) => rep.push(format!("{ctx}:list:error:{}:after-{after}", err_kind(&e)), format!("list() fails: {e}")),
        Ok(Ok(entries)) => {
            let mut by_key: BTreeMap<String, Vec<(String, u64)>> = BTreeMap::new();
            for e in &entries {
                if e.name.starts_with('(') {
                    continue;
                }
                by_key.entry(fold(&e.name)).or_default().push((e.name.clone(), e.size));
            }
            let want = model.union(prep);
            let got: BTreeSet<String> = by_key.keys().cloned().collect();
            if let Some(m) = want.difference(&got).next() {
                rep.push(format!("{ctx}:list:missing-name:after-{after}"), format!("listing lacks {m:?}; got {got:?}"));
            }
            if let Some(x) = got.difference(&want).next() {
                rep.push(format!("{ctx}:list:extra-name:after-{after}"), format!("listing has {x:?} which no member holds"));
            }
            for (k, v) in &by_key {
                if !want.contains(k) {
                    continue;
                }
                if v.len() > 1 {
                    rep.push(
                        "chain:list:logical-name-listed-more-than-once".to_string(),
                        format!("listing is documented as deduplicated, but {k:?} appears as {:?} (spellings differ between archives)", v.iter().map(|x| &x.0).collect::<Vec<_>>()),
                    );
                } else {
                    let acc = model.acceptable(prep, k);
                    let ok = acc.iter().any(|&a| prep.files[a][k].1.len() as u64 == v[0].1);
                    if !ok {
                        rep.push(
                            format!("{ctx}:list:entry-not-from-highest-priority-archive:after-{after}"),
                            format!("{k:?} listed with size {} but the winning version(s) {acc:?} have size {:?}", v[0].1, acc.iter().map(|&a| prep.files[a][k].1.len()).collect::<Vec<_>>()),
                        );
                    }
                }
            }
        }
    }
}

fn winners_snapshot(model: &Model, prep: &Prepared) -> BTreeMap<String, Vec<usize>> {
    prep.pool.iter().map(|n| (fold(n), model.acceptable(prep, &fold(n)))).collect()
}

/// Interpret a history; then rebuild the final member set through the parallel constructors.
pub fn run_history(prep: &Prepared, ops: &[Op], probe_seed: u32, level: usize, parallel: bool) -> Report {
    let mut rep = Report::default();
    let mut model = Model::default();
    let mut chain = PatchChain::new();
    probe("chain", "new", &mut chain, &model, prep, probe_seed, level, &mut rep);
    for op in ops {
        let before = winners_snapshot(&model, prep);
        let r: Result<(), Fail> = (|| {
            match op.clone() {
                Op::AddBatch { items, bad } => {
                    // members already present and repeats inside the batch are left out (duplicate
                    // membership is outside the statement)
                    let mut batch: Vec<(usize, i32)> = vec![];
                    for (a, prio) in items {
                        let a = a as usize % prep.paths.len();
                        if model.pos(a).is_none() && !batch.iter().any(|b| b.0 == a) {
                            batch.push((a, prio));
                        }
                    }
                    let mut args: Vec<(PathBuf, i32)> = batch.iter().map(|&(a, p)| (prep.paths[a].clone(), p)).collect();
                    if bad != 255 {
                        let not_an_archive = prep.paths[0].with_file_name("not-an-archive.txt");
                        if !not_an_archive.exists() {
                            std::fs::write(&not_an_archive, b"this is not an MPQ archive").map_err(|e| Fail::new("harness:io", e.to_string()))?;
                        }
                        args.insert((bad as usize).min(args.len()), (not_an_archive, 7));
                    }
                    let r = engine::guard("chain::add_archives_parallel", || chain.add_archives_parallel(args))?;
                    match (r, bad != 255) {
                        (Ok(()), false) => {
                            for (a, prio) in batch {
                                model.clock += 1;
                                let c = model.clock;
                                model.members.push(Member { a, prio, added: c, touched: c });
                            }
                        }
                        (Ok(()), true) => rep.push("chain:add_archives_parallel:ok-with-invalid-archive".into(), "add_archives_parallel returned Ok although one path of the batch is not an archive".into()),
                        (Err(e), false) => rep.push("chain:add_archives_parallel:error-on-valid-archives".into(), format!("{e}")),
                        (Err(_), true) => {
                            // the call failed: whatever members the chain now *reports* (none of the
                            // batch, or some of it) is the member set its answers must agree with
                            for (a, prio) in batch {
                                if let Some(p) = chain.get_priority(&prep.paths[a]) {
                                    rep.failed_batch_left_members = true;
                                    model.clock += 1;
                                    let c = model.clock;
                                    model.members.push(Member { a, prio: p, added: c, touched: c });
                                    let _ = prio;
                                }
                            }
                        }
                    }
                }
                Op::Add { a, prio } => {
                    let a = a as usize % prep.paths.len();
                    if model.pos(a).is_some() {
                        // adding a path that is already a member: outside the statement (the
                        // result of a duplicate membership is not defined) — not executed
                        rep.skipped_ops += 1;
                        return Ok(());
                    }
                    let r = engine::guard("chain::add_archive", || chain.add_archive(&prep.paths[a], prio))?;
                    match r {
                        Ok(()) => {
                            model.clock += 1;
                            let c = model.clock;
                            model.members.push(Member { a, prio, added: c, touched: c });
                        }
                        Err(e) => rep.push("chain:add_archive:error-on-valid-archive".into(), format!("add_archive(member {a}, {prio}) fails: {e}")),
                    }
                }
                Op::Remove { a } => {
                    let a = a as usize % prep.paths.len();
                    let r = engine::guard("chain::remove_archive", || chain.remove_archive(&prep.paths[a]))?;
                    let was = model.pos(a);
                    match r {
                        Ok(b) => {
                            if b != was.is_some() {
                                rep.push("chain:remove_archive:return-value".into(), format!("remove_archive(member {a}) = {b}, member present: {}", was.is_some()));
                            }
                        }
                        Err(e) => rep.push("chain:remove_archive:error".into(), format!("remove_archive(member {a}) fails: {e}")),
                    }
                    if let Some(p) = was {
                        model.members.remove(p);
                    }
                }
                Op::SetPriority { a, prio } => {
                    let a = a as usize % prep.paths.len();
                    let r = engine::guard("chain::set_priority", || chain.set_priority(&prep.paths[a], prio))?;
                    match (model.pos(a), r) {
                        (Some(p), Ok(())) => {
                            model.clock += 1;
                            model.members[p].prio = prio;
                            model.members[p].touched = model.clock;
                        }
                        (Some(_), Err(e)) => rep.push("chain:set_priority:error-for-member".into(), format!("set_priority(member {a}, {prio}) fails: {e}")),
                        (None, _) => {}
                    }
                }
                Op::Clear => {
                    engine::guard("chain::clear", || chain.clear())?;
                    model.members.clear();
                }
            }
            Ok(())
        })();
        if let Err(f) = r {
            rep.push(f.signature, f.message);
            return rep;
        }
        rep.max_members = rep.max_members.max(model.members.len());
        let after = winners_snapshot(&model, prep);
        if before != after {
            match op {
                Op::Remove { .. } => rep.remove_changed = true,
                Op::AddBatch { .. } => {}
                Op::SetPriority { .. } => {
                    // only a change between two non-empty winners counts (membership is unchanged)
                    rep.setprio_changed = true
                }
                _ => {}
            }
        }
        if chain.archive_count() != model.members.len() {
            rep.push(format!("chain:archive_count:after-{}", op.kind()), format!("archive_count() = {}, model has {}", chain.archive_count(), model.members.len()));
        }
        for a in 0..prep.paths.len() {
            let want = model.members.iter().find(|m| m.a == a).map(|m| m.prio);
            let got = chain.get_priority(&prep.paths[a]);
            if got != want {
                rep.push(format!("chain:get_priority:after-{}", op.kind()), format!("get_priority(member {a}) = {got:?}, model {want:?}"));
            }
        }
        probe("chain", op.kind(), &mut chain, &model, prep, probe_seed, level, &mut rep);
    }
    if parallel {
        let mut list: Vec<&Member> = model.members.iter().collect();
        list.sort_by_key(|m| m.added);
        let list: Vec<(usize, i32)> = list.iter().map(|m| (m.a, m.prio)).collect();
        parallel_checks(prep, &list, probe_seed, level, &mut rep);
    }
    rep
}

/// The same member set through `from_archives_parallel` (given order and reversed) and through
/// sequential adds followed by `add_archives_parallel`; ties follow the order of the list.
pub fn parallel_checks(prep: &Prepared, list: &[(usize, i32)], probe_seed: u32, level: usize, rep: &mut Report) {
    let args = |l: &[(usize, i32)]| -> Vec<(PathBuf, i32)> { l.iter().map(|&(a, p)| (prep.paths[a].clone(), p)).collect() };
    let mut orders: Vec<Vec<(usize, i32)>> = vec![list.to_vec()];
    if list.len() > 1 {
        let mut r = list.to_vec();
        r.reverse();
        orders.push(r);
    }
    for (oi, l) in orders.iter().enumerate() {
        let ctx = if oi == 0 { "chain-parallel:from_archives_parallel" } else { "chain-parallel:from_archives_parallel-reversed" };
        match engine::guard("PatchChain::from_archives_parallel", || PatchChain::from_archives_parallel(args(l))) {
            Err(f) => rep.push(f.signature, f.message),
            Ok(Err(e)) => rep.push(format!("{ctx}:error-on-valid-archives"), format!("{e}")),
            Ok(Ok(mut c)) => {
                let m = Model::from_list(l);
                if c.archive_count() != l.len() {
                    rep.push(format!("{ctx}:archive_count"), format!("{} members for a list of {}", c.archive_count(), l.len()));
                }
                probe(ctx, "build", &mut c, &m, prep, probe_seed, level, rep);
            }
        }
    }
    // sequential prefix + parallel rest
    let k = list.len() / 2;
    let ctx = "chain-parallel:add_archives_parallel";
    let mut c = PatchChain::new();
    for &(a, p) in &list[..k] {
        if let Err(e) = c.add_archive(&prep.paths[a], p) {
            rep.push("chain:add_archive:error-on-valid-archive".into(), format!("{e}"));
            return;
        }
    }
    match engine::guard("PatchChain::add_archives_parallel", || c.add_archives_parallel(args(&list[k..]))) {
        Err(f) => rep.push(f.signature, f.message),
        Ok(Err(e)) => rep.push(format!("{ctx}:error-on-valid-archives"), format!("{e}")),
        Ok(Ok(())) => {
            let m = Model::from_list(list);
            if c.archive_count() != list.len() {
                rep.push(format!("{ctx}:archive_count"), format!("{} members for a list of {}", c.archive_count(), list.len()));
            }
            probe(ctx, "build", &mut c, &m, prep, probe_seed, level, rep);
        }
    }
}

pub fn classify(ops: &[Op], rep: &Report, n_arch: usize, mixed_spelling: bool) -> String {
    let kinds: BTreeSet<&str> = ops.iter().map(|o| o.kind()).collect();
    let extremes = ops.iter().any(|o| matches!(o, Op::Add { prio, .. } | Op::SetPriority { prio, .. } if *prio == i32::MIN || *prio == i32::MAX));
    format!(
        "arch{}:len{}:[{}]:members{}:tie{}:amb{}:rm{}:sp{}:ext{}:mix{}",
        n_arch,
        match ops.len() {
            0..=4 => ops.len().to_string(),
            5..=10 => "5-10".into(),
            11..=18 => "11-18".into(),
            _ => "19+".into(),
        },
        kinds.into_iter().collect::<Vec<_>>().join(","),
        rep.max_members,
        rep.tie as u8,
        rep.ambiguous as u8,
        rep.remove_changed as u8,
        rep.setprio_changed as u8,
        extremes as u8,
        mixed_spelling as u8
    )
}

/// the 22-letter alphabet of the bounded-exhaustive part
pub fn alphabet(n_arch: u8, prios: &[i32]) -> Vec<Op> {
    let mut v = vec![];
    for a in 0..n_arch {
        for &p in prios {
            v.push(Op::Add { a, prio: p });
        }
    }
    for a in 0..n_arch {
        v.push(Op::Remove { a });
    }
    for a in 0..n_arch {
        for &p in prios {
            v.push(Op::SetPriority { a, prio: p });
        }
    }
    v.push(Op::Clear);
    // parallel batches: all valid, and with a path that is not an archive (first / last position)
    v.push(Op::AddBatch { items: vec![(0, prios[0]), (1, prios[prios.len() - 1])], bad: 255 });
    v.push(Op::AddBatch { items: vec![(1, prios[0]), (2, prios[0])], bad: 9 });
    v.push(Op::AddBatch { items: vec![(2, prios[prios.len() - 1]), (0, prios[0])], bad: 0 });
    v
}

/// the three fixed members of the exhaustive part: name 0 in all, 1/2/4 in two, 3/5 in one
pub fn fixed_members(mixed: bool) -> Vec<ArchiveSpec> {
    let sp = |s: u8| if mixed { s } else { 0 };
    vec![
        member_spec(0, 1, 0, &[(0, sp(0), 0), (1, sp(1), 1), (2, sp(2), 2), (3, sp(3), 3)]),
        member_spec(1, 2, 1, &[(0, sp(1), 4), (1, sp(0), 5), (4, sp(4), 6)]),
        member_spec(2, 4, 0, &[(0, sp(3), 8), (2, sp(0), 9), (4, sp(2), 10), (5, sp(1), 7)]),
    ]
}
