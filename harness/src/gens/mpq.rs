//! Archive specification generator shared by C01, C02, C06, C07, C09, C10, C12.
//! A spec is fully serialisable; file contents are (class, length, seed) descriptors that
//! `materialize` expands deterministically (no proptest involved), so a replay file stays small.

use proptest::prelude::*;
use serde::{Deserialize, Serialize};
use wow_mpq::{ArchiveBuilder, AttributesOption, FormatVersion, ListfileOption};

pub const M_NONE: u8 = 0;
pub const M_HUFF: u8 = 0x01;
pub const M_ZLIB: u8 = 0x02;
pub const M_IMPLODE: u8 = 0x04;
pub const M_PKWARE: u8 = 0x08;
pub const M_BZIP2: u8 = 0x10;
pub const M_LZMA: u8 = 0x12;
pub const M_SPARSE: u8 = 0x20;
pub const M_ADPCM_MONO: u8 = 0x40;
pub const M_ADPCM_STEREO: u8 = 0x80;

/// all selectors the C01 quantifier names
pub const ALL_METHODS: [u8; 12] = [
    M_NONE,
    M_ZLIB,
    M_BZIP2,
    M_LZMA,
    M_SPARSE,
    M_PKWARE,
    M_ADPCM_MONO,
    M_ADPCM_STEREO,
    M_ADPCM_MONO | M_ZLIB,
    M_ADPCM_STEREO | M_ZLIB,
    M_ADPCM_MONO | M_BZIP2,
    M_ADPCM_STEREO | M_BZIP2,
];

pub fn is_lossy(m: u8) -> bool {
    m != M_LZMA && (m & (M_ADPCM_MONO | M_ADPCM_STEREO)) != 0
}

pub fn method_name(m: u8) -> String {
    match m {
        M_NONE => "none".into(),
        M_ZLIB => "zlib".into(),
        M_BZIP2 => "bzip2".into(),
        M_LZMA => "lzma".into(),
        M_SPARSE => "sparse".into(),
        M_PKWARE => "pkware".into(),
        M_HUFF => "huffman".into(),
        M_IMPLODE => "implode".into(),
        M_ADPCM_MONO => "adpcm-mono".into(),
        M_ADPCM_STEREO => "adpcm-stereo".into(),
        x if x == M_ADPCM_MONO | M_ZLIB => "adpcm-mono+zlib".into(),
        x if x == M_ADPCM_STEREO | M_ZLIB => "adpcm-stereo+zlib".into(),
        x if x == M_ADPCM_MONO | M_BZIP2 => "adpcm-mono+bzip2".into(),
        x if x == M_ADPCM_STEREO | M_BZIP2 => "adpcm-stereo+bzip2".into(),
        x => format!("m{x:#04x}"),
    }
}

#[derive(Clone, Copy, Debug, PartialEq, Eq, Serialize, Deserialize)]
pub enum ContentClass {
    Random,
    Constant,
    Period,
    Sparse,
    Text,
    CompressibleHeadRandomTail,
    RandomHeadCompressibleTail,
    LowEntropy,
    /// one incompressible 512-byte block repeated: every 512-byte sector is stored raw and all sectors (and so
    /// their checksums) are identical
    RepeatedRandomBlock,
    /// random bytes whose last four bytes are chosen so that the CRC-32 of the whole content is 0x00000000 — the
    /// value a reader may mistake for "no checksum recorded" (only placed explicitly, not part of ALL_CLASSES)
    Crc32Zero,
}

pub const ALL_CLASSES: [ContentClass; 9] = [
    ContentClass::Random,
    ContentClass::Constant,
    ContentClass::Period,
    ContentClass::Sparse,
    ContentClass::Text,
    ContentClass::CompressibleHeadRandomTail,
    ContentClass::RandomHeadCompressibleTail,
    ContentClass::LowEntropy,
    ContentClass::RepeatedRandomBlock,
];

/// Length relative to the sector size S: `halves * S/2 + delta` (never negative)
#[derive(Clone, Copy, Debug, PartialEq, Eq, Serialize, Deserialize)]
pub struct LenSpec {
    pub halves: u8,
    pub delta: i16,
}

impl LenSpec {
    pub fn resolve(&self, sector: usize) -> usize {
        let base = (self.halves as i64) * (sector as i64) / 2 + self.delta as i64;
        base.max(0) as usize
    }
    pub fn class(&self, sector: usize) -> &'static str {
        let n = self.resolve(sector);
        if n == 0 {
            "0"
        } else if n <= 5 {
            "1-5"
        } else if n < sector - 1 {
            "<S-1"
        } else if n == sector - 1 {
            "S-1"
        } else if n == sector {
            "S"
        } else if n == sector + 1 {
            "S+1"
        } else if n <= 2 * sector {
            "≤2S"
        } else if n <= 3 * sector {
            "≤3S"
        } else {
            ">3S"
        }
    }
}

#[derive(Clone, Copy, Debug, PartialEq, Eq, Serialize, Deserialize)]
pub enum Enc {
    None,
    Key,
    FixKey,
}

#[derive(Clone, Debug, PartialEq, Eq, Serialize, Deserialize)]
pub struct FileSpec {
    pub name: String,
    pub class: ContentClass,
    pub len: LenSpec,
    pub seed: u32,
    pub method: u8,
    pub enc: Enc,
    /// language id stored in the hash table entry (0 = neutral); lookups are language-neutral
    #[serde(default)]
    pub locale: u16,
}

#[derive(Clone, Copy, Debug, PartialEq, Eq, Serialize, Deserialize)]
pub enum Attrs {
    None,
    Crc32,
    Full,
    /// generate_crcs(true) and then attributes_option(None): order-dependent configuration
    CrcsThenNone,
    /// attributes_option(GenerateFull) and then generate_crcs(false): CRC32+MD5 attributes without sector
    /// checksums (the attribute digests are the only protection of the file data)
    FullThenNoCrcs,
    /// attributes_option(GenerateCrc32) and then generate_crcs(false): the CRC32 attribute is the only protection
    Crc32ThenNoCrcs,
}

#[derive(Clone, Debug, PartialEq, Eq, Serialize, Deserialize)]
pub struct ArchiveSpec {
    pub version: u8, // 1..=4
    pub shift: u16,
    pub crcs: bool,
    pub attrs: Attrs,
    pub listfile: bool,
    pub compress_tables: bool,
    pub table_method: u8,
    pub files: Vec<FileSpec>,
}

impl ArchiveSpec {
    pub fn sector(&self) -> usize {
        512usize << self.shift
    }
    pub fn format_version(&self) -> FormatVersion {
        match self.version {
            1 => FormatVersion::V1,
            2 => FormatVersion::V2,
            3 => FormatVersion::V3,
            _ => FormatVersion::V4,
        }
    }
    /// effective sector-CRC setting after the builder's option coupling
    pub fn effective_crcs(&self) -> bool {
        match self.attrs {
            Attrs::Crc32 | Attrs::Full => true,
            Attrs::CrcsThenNone => true,
            Attrs::FullThenNoCrcs | Attrs::Crc32ThenNoCrcs => false,
            Attrs::None => self.crcs,
        }
    }
    /// does the archive get an (attributes) file?
    pub fn has_attributes(&self) -> bool {
        match self.attrs {
            Attrs::Crc32 | Attrs::Full | Attrs::FullThenNoCrcs | Attrs::Crc32ThenNoCrcs => true,
            Attrs::CrcsThenNone => false,
            // generate_crcs(true) alone switches attributes to Crc32
            Attrs::None => self.crcs,
        }
    }
    pub fn builder(&self) -> ArchiveBuilder {
        let mut b = ArchiveBuilder::new()
            .version(self.format_version())
            .block_size(self.shift)
            .listfile_option(if self.listfile {
                ListfileOption::Generate
            } else {
                ListfileOption::None
            })
            .compress_tables(self.compress_tables)
            .table_compression(self.table_method);
        match self.attrs {
            Attrs::None => {
                if self.crcs {
                    b = b.generate_crcs(true);
                }
            }
            Attrs::Crc32 => {
                if self.crcs {
                    b = b.generate_crcs(true);
                }
                b = b.attributes_option(AttributesOption::GenerateCrc32);
            }
            Attrs::Full => {
                b = b.attributes_option(AttributesOption::GenerateFull);
            }
            Attrs::CrcsThenNone => {
                b = b.generate_crcs(true).attributes_option(AttributesOption::None);
            }
            Attrs::FullThenNoCrcs => {
                b = b.attributes_option(AttributesOption::GenerateFull).generate_crcs(false);
            }
            Attrs::Crc32ThenNoCrcs => {
                b = b.attributes_option(AttributesOption::GenerateCrc32).generate_crcs(false);
            }
        }
        let s = self.sector();
        for f in &self.files {
            let data = materialize(f.class, f.len.resolve(s), f.seed);
            b = match f.enc {
                Enc::None => b.add_file_data_with_options(data, &f.name, f.method, false, f.locale),
                Enc::Key => b.add_file_data_with_encryption(data, &f.name, f.method, false, f.locale),
                Enc::FixKey => b.add_file_data_with_encryption(data, &f.name, f.method, true, f.locale),
            };
        }
        b
    }
    pub fn content(&self, i: usize) -> Vec<u8> {
        let f = &self.files[i];
        materialize(f.class, f.len.resolve(self.sector()), f.seed)
    }
    pub fn summary(&self) -> String {
        format!(
            "V{} shift{} crcs{} attrs{:?} lf{} ct{}:{:#x} files[{}]",
            self.version,
            self.shift,
            self.crcs as u8,
            self.attrs,
            self.listfile as u8,
            self.compress_tables as u8,
            self.table_method,
            self.files
                .iter()
                .map(|f| format!(
                    "{}:{:?}:{}:{}:{:?}",
                    f.name,
                    f.class,
                    f.len.resolve(self.sector()),
                    method_name(f.method),
                    f.enc
                ))
                .collect::<Vec<_>>()
                .join(", ")
        )
    }
}

// -----------------------------------------------------------------------------------------
// deterministic content

fn xorshift(state: &mut u64) -> u64 {
    let mut x = *state;
    x ^= x << 13;
    x ^= x >> 7;
    x ^= x << 17;
    *state = x;
    x
}

fn fill_random(out: &mut [u8], st: &mut u64) {
    for ch in out.chunks_mut(8) {
        let v = xorshift(st).to_le_bytes();
        ch.copy_from_slice(&v[..ch.len()]);
    }
}

const WORDS: [&str; 16] = [
    "the ", "quick ", "brown ", "fox ", "Interface\\", "Icons\\", ".blp\r\n", "World\\", "Maps\\",
    "Azeroth", "_32_48", ".adt\r\n", "Sound\\", "Spells\\", "Cast", ".wav\r\n",
];

pub fn materialize(class: ContentClass, len: usize, seed: u32) -> Vec<u8> {
    let mut st: u64 = 0x9E37_79B9_7F4A_7C15 ^ ((seed as u64) << 1 | 1);
    for _ in 0..4 {
        xorshift(&mut st);
    }
    let mut out = vec![0u8; len];
    match class {
        ContentClass::Random => fill_random(&mut out, &mut st),
        ContentClass::Constant => {
            let b = (seed % 251) as u8;
            out.fill(b);
        }
        ContentClass::Period => {
            let periods = [1usize, 2, 3, 4, 7, 255, 256, 257];
            let p = periods[(seed as usize) % periods.len()];
            let mut pat = vec![0u8; p];
            fill_random(&mut pat, &mut st);
            for (i, b) in out.iter_mut().enumerate() {
                *b = pat[i % p];
            }
        }
        ContentClass::Sparse => {
            // zero runs with islands of data
            let mut i = 0;
            while i < len {
                let zr = (xorshift(&mut st) % 300) as usize + 1;
                i += zr;
                let isl = (xorshift(&mut st) % 9) as usize + 1;
                for _ in 0..isl {
                    if i < len {
                        out[i] = (xorshift(&mut st) & 0xFF) as u8 | 1;
                        i += 1;
                    }
                }
            }
        }
        ContentClass::Text => {
            let mut i = 0;
            while i < len {
                let w = WORDS[(xorshift(&mut st) % 16) as usize].as_bytes();
                for &b in w {
                    if i < len {
                        out[i] = b;
                        i += 1;
                    }
                }
            }
        }
        ContentClass::CompressibleHeadRandomTail => {
            let cut = len / 2;
            out[..cut].fill(b'A' + (seed % 20) as u8);
            fill_random(&mut out[cut..], &mut st);
        }
        ContentClass::RandomHeadCompressibleTail => {
            let cut = len / 2;
            fill_random(&mut out[..cut], &mut st);
            out[cut..].fill((seed % 7) as u8);
        }
        ContentClass::LowEntropy => {
            for b in out.iter_mut() {
                *b = b"abc "[(xorshift(&mut st) & 3) as usize];
            }
        }
        ContentClass::Crc32Zero => {
            fill_random(&mut out, &mut st);
            if len >= 4 {
                let tail = crc32_forcing_tail(&out[..len - 4], 0);
                out[len - 4..].copy_from_slice(&tail);
                debug_assert_eq!(crc32fast::hash(&out), 0);
            }
        }
        ContentClass::RepeatedRandomBlock => {
            let mut pat = vec![0u8; 512];
            fill_random(&mut pat, &mut st);
            for (i, b) in out.iter_mut().enumerate() {
                *b = pat[i % 512];
            }
        }
    }
    out
}

/// Four bytes that, appended to `prefix`, make the (reflected, zlib) CRC-32 of the whole equal `target`.
pub fn crc32_forcing_tail(prefix: &[u8], target: u32) -> [u8; 4] {
    let mut table = [0u32; 256];
    for (i, t) in table.iter_mut().enumerate() {
        let mut c = i as u32;
        for _ in 0..8 {
            c = if c & 1 != 0 { 0xEDB8_8320 ^ (c >> 1) } else { c >> 1 };
        }
        *t = c;
    }
    // register after the prefix, and the register wanted after four more bytes
    let mut reg = !crc32fast::hash(prefix);
    let want = !target;
    // backwards: the table indices of the four steps are fixed by the top bytes
    let mut idx = [0usize; 4];
    let mut t = want;
    for k in (0..4).rev() {
        let j = (0..256).find(|&j| table[j] >> 24 == t >> 24).expect("crc table top bytes are a permutation");
        idx[k] = j;
        t = (t ^ table[j]) << 8;
    }
    // forwards: the bytes that select those indices
    let mut out = [0u8; 4];
    for k in 0..4 {
        out[k] = ((reg ^ idx[k] as u32) & 0xFF) as u8;
        reg = (reg >> 8) ^ table[idx[k]];
    }
    out
}

// -----------------------------------------------------------------------------------------
// strategies

/// ASCII path names: 1–4 components, separators `\` or `/`, mixed case. No leading/trailing
/// blanks (the listfile parser trims lines), no ';' '#'-leading, no control characters.
pub fn name_strategy() -> impl Strategy<Value = String> {
    let comp = prop_oneof![
        6 => "[A-Za-z0-9_()-][A-Za-z0-9_ .()-]{0,10}[A-Za-z0-9_()-]",
        2 => "[A-Za-z0-9_]{1,3}",
        1 => "[A-Za-zäöüÄÖÜéèß0-9_]{1,8}",
    ];
    (
        proptest::collection::vec(comp, 1..=4),
        proptest::collection::vec(any::<bool>(), 4),
        "[a-z0-9]{1,3}",
    )
        .prop_map(|(parts, seps, ext)| {
            let mut s = String::new();
            for (i, p) in parts.iter().enumerate() {
                if i > 0 {
                    s.push(if seps[i] { '\\' } else { '/' });
                }
                s.push_str(p);
            }
            s.push('.');
            s.push_str(&ext);
            s
        })
        .prop_filter("not a special name", |s| {
            !s.starts_with('(') && !s.starts_with('#')
        })
}

pub fn len_strategy(max_halves: u8) -> BoxedStrategy<LenSpec> {
    if max_halves < 2 {
        return prop_oneof![
            2 => (0i16..=5).prop_map(|d| LenSpec { halves: 0, delta: d }),
            2 => (6i16..=200).prop_map(|d| LenSpec { halves: 0, delta: d }),
        ]
        .boxed();
    }
    prop_oneof![
        2 => (0i16..=5).prop_map(|d| LenSpec { halves: 0, delta: d }),
        2 => (6i16..=200).prop_map(|d| LenSpec { halves: 0, delta: d }),
        3 => (-2i16..=2).prop_map(|d| LenSpec { halves: 2, delta: d }),
        3 => (2u8..=max_halves, -2i16..=2).prop_map(|(h, d)| LenSpec { halves: h, delta: d }),
        2 => (1u8..=max_halves, -300i16..=300).prop_map(|(h, d)| LenSpec { halves: h, delta: d }),
    ]
    .boxed()
}

pub fn class_strategy() -> impl Strategy<Value = ContentClass> {
    (0usize..ALL_CLASSES.len()).prop_map(|i| ALL_CLASSES[i])
}

pub fn enc_strategy() -> impl Strategy<Value = Enc> {
    prop_oneof![3 => Just(Enc::None), 1 => Just(Enc::Key), 1 => Just(Enc::FixKey)]
}

pub fn file_strategy(
    methods: &'static [u8],
    max_halves: u8,
    allow_enc: bool,
) -> impl Strategy<Value = FileSpec> {
    (
        name_strategy(),
        class_strategy(),
        len_strategy(max_halves),
        any::<u32>(),
        (0usize..methods.len()),
        enc_strategy(),
        // one file in three carries a language id (enUS, deDE, zhCN): a builder parameter like any other
        prop_oneof![4 => Just(0u16), 1 => Just(0x0409u16), 1 => Just(0x0407u16), 1 => Just(0x0804u16)],
    )
        .prop_map(move |(name, class, len, seed, mi, enc, locale)| FileSpec {
            name,
            class,
            len,
            seed,
            method: methods[mi],
            enc: if allow_enc { enc } else { Enc::None },
            locale,
        })
}

#[derive(Clone, Copy, Debug)]
pub struct GenParams {
    pub versions: (u8, u8),
    pub max_shift: u16,
    pub methods: &'static [u8],
    pub max_files: usize,
    pub allow_enc: bool,
    pub allow_crcs: bool,
    pub allow_attrs: bool,
    pub many_tiny: bool,
}

impl GenParams {
    pub fn full() -> GenParams {
        GenParams {
            versions: (1, 4),
            max_shift: 8,
            methods: &ALL_METHODS,
            max_files: 12,
            allow_enc: true,
            allow_crcs: true,
            allow_attrs: true,
            many_tiny: true,
        }
    }
}

fn dedup_names(files: &mut Vec<FileSpec>) {
    // keep logical duplicates out (a duplicate makes "the" content of a name ambiguous)
    let mut seen = std::collections::BTreeSet::new();
    files.retain(|f| {
        seen.insert(crate::oracle::refcrypt::fold(f.name.as_bytes()))
    });
}

pub fn archive_strategy(p: GenParams) -> impl Strategy<Value = ArchiveSpec> {
    let shift = prop_oneof![
        6 => 0u16..=1,
        3 => 2u16..=3,
        1 => 4u16..=p.max_shift.max(4),
    ]
    .prop_map(move |s| s.min(p.max_shift));
    let attrs = if p.allow_attrs {
        prop_oneof![
            4 => Just(Attrs::None),
            2 => Just(Attrs::Crc32),
            2 => Just(Attrs::Full),
            1 => Just(Attrs::CrcsThenNone),
            1 => Just(Attrs::FullThenNoCrcs),
            1 => Just(Attrs::Crc32ThenNoCrcs),
        ]
        .boxed()
    } else {
        Just(Attrs::None).boxed()
    };
    let tm = prop_oneof![Just(M_ZLIB), Just(M_BZIP2), Just(M_LZMA)];
    (
        (p.versions.0..=p.versions.1),
        shift,
        any::<bool>(),
        attrs,
        prop_oneof![4 => Just(true), 1 => Just(false)],
        any::<bool>(),
        tm,
    )
        .prop_flat_map(move |(version, shift, crcs, attrs, listfile, ct, table_method)| {
            // keep many-sector files small: cap halves by shift
            let max_halves: u8 = match shift {
                0 => 16,
                1 => 12,
                2..=3 => 8,
                _ => 5,
            };
            let files = if p.many_tiny {
                prop_oneof![
                    9 => proptest::collection::vec(file_strategy(p.methods, max_halves, p.allow_enc), 0..=p.max_files),
                    1 => proptest::collection::vec(file_strategy(p.methods, 0, p.allow_enc), 40..120),
                ]
                .boxed()
            } else {
                proptest::collection::vec(
                    file_strategy(p.methods, max_halves, p.allow_enc),
                    0..=p.max_files,
                )
                .boxed()
            };
            files.prop_map(move |mut files| {
                dedup_names(&mut files);
                ArchiveSpec {
                    version,
                    shift,
                    crcs: crcs && p.allow_crcs,
                    attrs,
                    listfile,
                    compress_tables: ct,
                    table_method,
                    files,
                }
            })
        })
}

/// spellings of a name that differ only in ASCII case or slash direction
pub fn spellings(name: &str, seed: u32) -> Vec<String> {
    let flip = |s: &str| -> String {
        s.chars()
            .map(|c| match c {
                '/' => '\\',
                '\\' => '/',
                c => c,
            })
            .collect()
    };
    let mut st = seed as u64 | 0x1_0000_0000;
    let rnd: String = name
        .chars()
        .map(|c| {
            let r = xorshift(&mut st);
            let c = if r & 1 == 0 {
                c.to_ascii_uppercase()
            } else {
                c.to_ascii_lowercase()
            };
            if r & 2 == 0 && (c == '/' || c == '\\') {
                if c == '/' { '\\' } else { '/' }
            } else {
                c
            }
        })
        .collect();
    let mut v = vec![
        name.to_string(),
        name.to_ascii_uppercase(),
        name.to_ascii_lowercase(),
        flip(name),
        rnd,
    ];
    v.dedup();
    v
}
