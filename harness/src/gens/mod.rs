//! Generators shared by several properties.
pub mod mpq;
