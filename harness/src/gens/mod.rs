//! Generators shared by several properties.
