//! dlopen wrapper around libstorm.so built from /repo (storm-ffi is cdylib/staticlib only).
use libc::{c_char, c_void};
use libloading::Library;
use std::ffi::CString;

pub type Handle = *mut c_void;

#[repr(C)]
pub struct FindData {
    pub c_file_name: [c_char; 260],
    pub sz_plain_name: *mut c_char,
    pub hash_index: u32,
    pub block_index: u32,
    pub file_size: u32,
    pub file_flags: u32,
    pub comp_size: u32,
    pub file_time_lo: u32,
    pub file_time_hi: u32,
    pub lc_locale: u32,
}

pub type EnumCb = extern "C" fn(*const c_char, *mut c_void) -> bool;

macro_rules! storm_api {
    ($( $name:ident : fn($($arg:ty),*) -> $ret:ty ;)*) => {
        #[allow(non_snake_case)]
        pub struct Storm {
            _lib: Library,
            $(pub $name: unsafe extern "C" fn($($arg),*) -> $ret,)*
        }
        impl Storm {
            pub fn load(path: &str) -> Result<Storm, String> {
                unsafe {
                    let lib = Library::new(path).map_err(|e| format!("dlopen {path}: {e}"))?;
                    $(
                        let $name = *lib
                            .get::<unsafe extern "C" fn($($arg),*) -> $ret>(concat!(stringify!($name), "\0").as_bytes())
                            .map_err(|e| format!("symbol {}: {e}", stringify!($name)))?;
                    )*
                    Ok(Storm { _lib: lib, $($name,)* })
                }
            }
        }
    };
}

storm_api! {
    SFileOpenArchive: fn(*const c_char, u32, u32, *mut Handle) -> bool;
    SFileCreateArchive: fn(*const c_char, u32, u32, *mut Handle) -> bool;
    SFileCloseArchive: fn(Handle) -> bool;
    SFileOpenFileEx: fn(Handle, *const c_char, u32, *mut Handle) -> bool;
    SFileCloseFile: fn(Handle) -> bool;
    SFileReadFile: fn(Handle, *mut c_void, u32, *mut u32, *mut c_void) -> bool;
    SFileGetFileSize: fn(Handle, *mut u32) -> u32;
    SFileSetFilePointer: fn(Handle, i32, *mut i32, u32) -> u32;
    SFileHasFile: fn(Handle, *const c_char) -> bool;
    SFileGetFileInfo: fn(Handle, u32, *mut c_void, u32, *mut u32) -> bool;
    SFileGetArchiveName: fn(Handle, *mut c_char, u32) -> bool;
    SFileEnumFiles: fn(Handle, *const c_char, *const c_char, Option<EnumCb>, *mut c_void) -> bool;
    SFileGetLastError: fn() -> u32;
    SFileSetLastError: fn(u32) -> ();
    SFileGetFileName: fn(Handle, *mut c_char) -> bool;
    SFileExtractFile: fn(Handle, *const c_char, *const c_char, u32) -> bool;
    SFileVerifyFile: fn(Handle, *const c_char, u32) -> bool;
    SFileVerifyArchive: fn(Handle, u32) -> bool;
    SFileAddFileEx: fn(Handle, *const c_char, *const c_char, u32, u32, u32) -> bool;
    SFileAddFile: fn(Handle, *const c_char, *const c_char, u32) -> bool;
    SFileRemoveFile: fn(Handle, *const c_char, u32) -> bool;
    SFileRenameFile: fn(Handle, *const c_char, *const c_char) -> bool;
    SFileFlushArchive: fn(Handle) -> bool;
    SFileCompactArchive: fn(Handle, *const c_char, bool) -> bool;
    SFileFindFirstFile: fn(Handle, *const c_char, *mut FindData, *const c_char) -> Handle;
    SFileFindNextFile: fn(Handle, *mut FindData) -> bool;
    SFileFindClose: fn(Handle) -> bool;
}

unsafe impl Send for Storm {}
unsafe impl Sync for Storm {}

pub const VERIFY_SECTOR_CRC: u32 = 0x01;
pub const VERIFY_FILE_CRC: u32 = 0x02;
pub const VERIFY_FILE_MD5: u32 = 0x04;
pub const VERIFY_SIGNATURE: u32 = 0x10;
pub const VERIFY_ALL_FILES: u32 = 0x20;

pub fn lib_path() -> String {
    std::env::var("VERIF_LIBSTORM").unwrap_or_else(|_| "/verif/target/repo/debug/libstorm.so".to_string())
}

pub fn cstr(s: &str) -> CString {
    CString::new(s.replace('\0', "?")).unwrap()
}

impl Storm {
    pub fn open(&self, path: &str) -> Option<Handle> {
        let mut h: Handle = std::ptr::null_mut();
        let p = cstr(path);
        let ok = unsafe { (self.SFileOpenArchive)(p.as_ptr(), 0, 0, &mut h) };
        if ok && !h.is_null() { Some(h) } else { None }
    }
    pub fn close(&self, h: Handle) -> bool {
        unsafe { (self.SFileCloseArchive)(h) }
    }
    pub fn verify_file(&self, h: Handle, name: &str, flags: u32) -> bool {
        let n = cstr(name);
        unsafe { (self.SFileVerifyFile)(h, n.as_ptr(), flags) }
    }
    pub fn last_error(&self) -> u32 {
        unsafe { (self.SFileGetLastError)() }
    }
}
