#!/bin/bash
# usage: mutrun.sh <bin> <patch-file> [extra args]   — apply patch to the scratch copy, build, run quick, revert
set -u
BIN=$1; PATCH=$2; shift 2
cd /tmp/mut/repo && git checkout -q -- . && git apply "$PATCH" || { echo "patch does not apply"; exit 3; }
cd /tmp/mut/harness && rsync -a --exclude target --exclude Cargo.toml --exclude .cargo /verif/harness/ /tmp/mut/harness/ 
sed 's|"/repo/|"/tmp/mut/repo/|g' /verif/harness/Cargo.toml > /tmp/mut/harness/Cargo.toml
cargo build --bin $BIN > /tmp/mut/build.log 2>&1 || { grep -E "^error" -A6 /tmp/mut/build.log | head -20; echo "harness build failed"; cd /tmp/mut/repo && git checkout -q -- .; exit 4; }
case "$BIN" in c10|c11|c19|c20)
  ( cd /verif && cargo +1.92 build --manifest-path /tmp/mut/repo/Cargo.toml -p warcraft-rs -p storm-ffi --target-dir /verif/target/mut-repo --offline 2>&1 | grep -E "^error" -A6 | head -10 )
  export VERIF_CLI=/verif/target/mut-repo/debug/warcraft-rs VERIF_LIBSTORM=/verif/target/mut-repo/debug/libstorm.so ;;
esac
mkdir -p /tmp/mut/out
cd /verif && VERIF_ROOT=/tmp/mut/out VERIF_LIBSTORM=${VERIF_LIBSTORM:-/verif/target/repo/debug/libstorm.so} timeout 1800 /verif/target/mut/debug/$BIN "$@" > /tmp/mut/last.out 2>&1
echo "exit=$?"
grep -E "^C[0-9]+ tier|signature:" /tmp/mut/last.out | sort | uniq -c | sort -rn | head -12
cd /tmp/mut/repo && git checkout -q -- .
