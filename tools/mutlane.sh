#!/bin/bash
# usage: mutlane.sh init <N>            — (re)create lane N: scratch copy of /repo's current tree and a
#                                          snapshot of /verif's committed harness (git archive HEAD)
#        mutlane.sh run <N> <bin> <patch> [args] — apply patch in lane N, build, run quick, revert
#        mutlane.sh confirm <N> <ID> <V> <crate> <crate-dir> <bin> [storm]
#        mutlane.sh drop <N>
# Lanes live in /tmp/mutlane<N> (repo, harness, out, results) with build output in
# /verif/target/mutlane<N>{,-repo}; several lanes can run side by side.
set -u
CMD=$1; N=$2; shift 2
L=/tmp/mutlane$N; R=$L/repo; H=$L/harness; T=/verif/target/mutlane$N
case "$CMD" in
init)
  mkdir -p $L/out $L/results $L/p
  rsync -a --no-times --checksum --delete --exclude target --exclude .git /repo/ $R/   # no mtime reset: a file reverted after a patched build must stay newer than that build
  ( cd $R && { [ -d .git ] || git init -q; } && git add -A >/dev/null 2>&1 && git -c user.email=x@x -c user.name=x commit -qm sync >/dev/null 2>&1 )
  rm -rf $H && mkdir -p $H && git -C /verif archive HEAD harness | tar -x -C $L
  sed "s|\"/repo/|\"$R/|g" /verif/harness/Cargo.toml > $H/Cargo.toml
  mkdir -p $H/.cargo && printf '[net]\noffline = true\n[build]\ntarget-dir = "%s"\n' "$T" > $H/.cargo/config.toml
  cp /repo/Cargo.lock $H/Cargo.lock
  git -C /repo rev-parse --short HEAD > $L/repo_head; git -C /verif rev-parse --short HEAD > $L/verif_head
  echo "lane $N ready (repo $(cat $L/repo_head), verif $(cat $L/verif_head))";;
run)
  BIN=$1; PATCH=$2; shift 2
  cd $R && git checkout -q -- . && git apply "$PATCH" || { echo "patch does not apply"; exit 3; }
  ( cd $H && cargo build --bin $BIN > $L/build.log 2>&1 ) || { grep -E "^error" -A6 $L/build.log | head -20; echo "harness build failed"; cd $R && git checkout -q -- .; exit 4; }
  case "$BIN" in c09|c10|c11|c12|c19|c20)
    ( cd /verif && cargo +1.92 build --manifest-path $R/Cargo.toml -p warcraft-rs -p storm-ffi --target-dir $T-repo --offline 2>&1 | grep -E "^error" -A6 | head -10 )
    export VERIF_CLI=$T-repo/debug/warcraft-rs VERIF_LIBSTORM=$T-repo/debug/libstorm.so ;;
  esac
  cd /verif && VERIF_C05_FUZZ=${VERIF_C05_FUZZ:-0} VERIF_C03_FUZZ=${VERIF_C03_FUZZ:-0} VERIF_ROOT=$L/out VERIF_LIBSTORM=${VERIF_LIBSTORM:-/verif/target/repo/debug/libstorm.so} timeout 3600 $T/debug/$BIN "$@" > $L/last.out 2>&1
  echo "exit=$?"
  grep -aE "^C[0-9]+ tier|signature:" $L/last.out | sort | uniq -c | sort -rn | head -12
  cd $R && git checkout -q -- .;;
confirm)
  ID=$1; V=$2; CRATE=$3; CDIR=$4; BIN=$5; KIND=${6:-test}
  SRC=/tmp/seedout-$ID/$V
  cd $R && git checkout -q -- . && git clean -fdq -e target >/dev/null 2>&1
  git apply --check $SRC/patch.diff || { echo "RESULT $ID/$V patch-does-not-apply"; python3 -c "import json;json.dump({'seed':'$ID-$V','applies':False},open('$L/results/${ID}_$V.json','w'))"; exit 3; }
  if [ -f $SRC/demo.sh ] && [ ! -f $SRC/demo.rs ]; then
    # shell demonstration taking the CLI binary as its argument
    ( cd $R && cargo build -p warcraft-rs --offline >/dev/null 2>&1 )
    T0=$(cd $L && timeout 300 bash $SRC/demo.sh $R/target/debug/warcraft-rs 2>&1 | tail -1; echo "exit=${PIPESTATUS[0]}")
    git apply $SRC/patch.diff
    ( cd $R && cargo build -p warcraft-rs --offline >/dev/null 2>&1 )
    T1=$(cd $L && timeout 300 bash $SRC/demo.sh $R/target/debug/warcraft-rs 2>&1 | tail -1; echo "exit=${PIPESTATUS[0]}")
  elif [ "$KIND" = storm ]; then
    ( cd $R && cargo build -p storm-ffi --offline >/dev/null 2>&1 )
    rustc --edition 2021 $SRC/demo.rs -L $R/target/debug -l dylib=storm -o $L/demo_$ID$V 2>/dev/null
    T0=$(cd $L && LD_LIBRARY_PATH=$R/target/debug timeout 120 $L/demo_$ID$V 2>&1 | tail -1; echo "exit=${PIPESTATUS[0]}")
    git apply $SRC/patch.diff
    ( cd $R && cargo build -p storm-ffi --offline >/dev/null 2>&1 )
    T1=$(cd $L && LD_LIBRARY_PATH=$R/target/debug timeout 120 $L/demo_$ID$V 2>&1 | tail -1; echo "exit=${PIPESTATUS[0]}")
    rm -f $L/demo_$ID$V
  else
    FEAT=""; [ "$CRATE" = wow-cdbc ] && FEAT="--all-features"
    mkdir -p $R/$CDIR/tests && cp $SRC/demo.rs $R/$CDIR/tests/verif_demo.rs
    T0=$(cd $R && cargo test -p $CRATE $FEAT --offline --test verif_demo 2>&1 | grep -E "^test result|error\[|error:" | head -3 | tr '\n' ' ')
    git apply $SRC/patch.diff
    T1=$(cd $R && cargo test -p $CRATE $FEAT --offline --test verif_demo 2>&1 | grep -E "^test result|error\[|error:" | head -3 | tr '\n' ' ')
    rm -f $R/$CDIR/tests/verif_demo.rs
  fi
  TS=$(cd $R && cargo test -p $CRATE --offline 2>&1 | grep -E "^test result" | awk '{p+=$4; f+=$6} END {print "passed",p,"failed",f}')
  git diff > $L/p/seed_${ID}_$V.diff
  git checkout -q -- .
  echo "RESULT $ID/$V demo-clean=[$T0] demo-mutant=[$T1] suite-with-mutant=[$TS]"
  /verif/tools/mutlane.sh run $N $BIN $L/p/seed_${ID}_$V.diff > $L/mutrun_${ID}_$V.txt 2>&1
  cut -c1-220 $L/mutrun_${ID}_$V.txt | grep -v conda | head -8
  python3 - "$ID" "$V" "$CRATE" "$BIN" "$T0" "$T1" "$TS" "$L" <<'PY'
import sys, json, re
ID,V,CRATE,BIN,T0,T1,TS,L=sys.argv[1:9]
out=open(f"{L}/mutrun_{ID}_{V}.txt").read()
ex=re.search(r"exit=(\d+)",out)
sigs=sorted(set(re.findall(r"signature: (\S+)",out)))
tier=re.search(r"^\s*\d+ (C\d\d tier=.*)$",out,re.M)
json.dump({"seed":f"{ID}-{V}","applies":True,"crate":CRATE,"check_bin":BIN,"repo_head":open(f"{L}/repo_head").read().strip(),"verif_head":open(f"{L}/verif_head").read().strip(),
  "demo_on_clean_tree":T0.strip(),"demo_with_change":T1.strip(),"crate_suite_with_change":TS.strip(),
  "check_exit":int(ex.group(1)) if ex else None,"check_signatures":sigs,"check_tier_line":tier.group(1) if tier else None,"patch":f"{L}/p/seed_{ID}_{V}.diff"},
  open(f"{L}/results/{ID}_{V}.json","w"),indent=1)
PY
  ;;
drop) rm -rf $L $T $T-repo; echo dropped;;
esac
