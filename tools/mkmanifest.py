#!/usr/bin/env python3
"""Regenerates /verif/MANIFEST.json from the table below (kept in one place so the manifest
is always valid). Run: python3 tools/mkmanifest.py"""
import json, os, sys
ROOT = os.path.dirname(os.path.dirname(os.path.abspath(__file__)))

CHECKS = {
 # id: (category, technique, text, note, design_ref)
 "C04": ("exploration",
         "exhaustive enumeration of small sub-domains + proptest random strings/keys/buffers vs independent reference (refcrypt, lookup3); round-trip and fold-invariance relations",
         "Every crypt-table entry and every ≤2-byte UTF-8 string is compared with an independent transcription of the published MPQ hash for all four hash types; 60k (quick) / 2M (thorough) generated names add equality, case/slash invariance and het_hash-vs-lookup3 for widths 8..64; the cipher is inverted and compared with the reference for every small length and for random buffers up to 64 KiB incl. lengths not divisible by 4, on whole buffers and on sub-slices at every byte offset 1..7 of a larger buffer (result must not depend on buffer position, bytes outside untouched). The HET/BET table cipher is checked end to end on builder-made V3 (1 700 files) and V4 (3 100 files) archives: every name resolves, absent names do not, and HetTable::read / BetTable::read on the stored encrypted table agree on every lookup with the same readers on a copy decrypted in one piece by the reference cipher; the BET name hashes the builder stores for 300 letterless names equal the low part of the reference lookup3 value; encrypted files (plain and position-adjusted key) of builder-made archives read identically behind 0/1/3/64 × 512 foreign bytes. Exploration is the right level: the domain is infinite, the small sub-domains are enumerated completely.",
         "Trusted: my reference transcriptions (self-checked against published constants: (hash table)/(block table) keys, spec hash examples, lookup3 driver vectors). Non-UTF-8 byte strings cannot be passed through the &str API. Cipher-vs-reference equality is not demanded for key 0. One open finding: het_hash folds names to upper case where the published algorithm folds to lower case (pinned by an existing unit test, so not repairable here); the reference is the published algorithm (lower case, top bit set for every width) and a result equal to the upper-case variant is reported under that one signature only.",
         "DESIGN.md §4 C04"),
 "C05": ("exploration",
         "engine A: deterministic structured mutation of valid seeds (prefixes, boundary-value substitution incl. inside decrypted MPQ tables, byte-wide substitution over chunk payload heads and ADT MH2O liquid instances (the DBC entry point also drives schema-driven access paths: string references through plain, cached and lazy resolvers, key lookups, iterator skips), chunk delete/dup/swap/resize, seeded havoc, garbage) judged in supervised worker processes with a tracking allocator, CPU budget and panic capture; engine B: coverage-guided fuzzing (cargo-fuzz/libFuzzer, 15 targets × seeded and empty corpus, fixed -runs/-seed work, known open panics tolerated in-target) whose artifacts are re-judged by engine A's worker",
         "≈332k (quick) / 5M (thorough) mutated inputs over 15 format families (MPQ archives V1..V4, (attributes) and (listfile) special files, COPY/BSD0 patch files, compressed streams for 11 method bytes, M2, skin, anim, ADT, WMO root/group, BLP, DBC, WDT, WDL — ≈280 valid seeds built with the crates' own writers or by hand) are run through every public open/parse/list/read entry point. A case fails if the worker panics, aborts, overflows its stack, exceeds 10 CPU-seconds, or requests one allocation above max(64 MiB, 256×input) or more than 1 GiB live; the first /repo frame of an oversized allocation or the panic site is the signature. Exploration is the only honest level for a ∀-bytes property.",
         "Engine B runs 30 libFuzzer campaigns per check run (quick: smoke depth, 15k–400k runs each; thorough: 60k–5M runs each, ≈19 min); an artifact that does not reproduce in the supervised worker (libFuzzer's stricter malloc/timeout limits) is counted, not reported. libFuzzer corpus evolution is only approximately reproducible from the seed. Absence of crashes outside the explored inputs is not shown. Results are not judged, only totality. One open finding (zune-jpeg dependency panics).",
         "DESIGN.md §4 C05, §7"),
 "C08": ("exploration",
         "model-based operation histories (bounded-exhaustive ≤3/≤4 over a 22-letter alphabet + proptest histories) against a priority-list model; differential testing of PTCH/BSD0/COPY application against an independent RLE+BSDIFF40+MD5 reference on patches built from random edit scripts; enumerated field/byte alterations in supervised workers with a tracking allocator; archive-level patch entries written by an independent MPQ writer",
         "On every explored history of add/remove/set-priority/clear, read_file, contains_file, find_file_archive and list agree with the model (highest priority wins, earliest added among equals, listing is the union, absent names not found) — 11 662 short histories quick / 256 566 thorough, random histories over up to 4 archives incl. parallel batch adds with and without a path that is not an archive, sequential and parallel construction, patch archives at a priority above or equal to the base archive's, chains of 21/26/40 members with long runs of ties, sectored patch entries whose stream fills whole sectors. Every accepted well-formed COPY or BSD0 patch yields exactly the reference result with the declared digest; every altered patch is rejected or yields bytes matching the digests it declares; no panic or out-of-proportion allocation.",
         "Bounded-exhaustive only for short histories over 3 fixed archives (longer chains are fixed cases); an Err on a valid patch is permitted by the statement (valid patches with interior negative seeks are in fact always rejected — counted); no claim about rayon schedules, listfile-less members or duplicate membership. After a failed parallel batch add the chain is judged against the member set it reports itself (atomicity of the failed call is not demanded). No open finding.",
         "DESIGN.md §4 C08"),
 "C11": ("exploration",
         "property-based testing of the real CLI process: grammar-generated hostile archive names, recursive filesystem-snapshot oracle over a fully observed sandbox, kernel-confined (Landlock) child",
         "Over 2 144 (quick) / 40 144 (thorough) runs of `warcraft-rs mpq extract` on generated archives (27 hostile-name token classes incl. a sibling directory whose name starts with the output directory's name; fixed shapes: archives of 1 001 / 1 500 entries with hostile directory parts, a hostile name right after a benign sibling of the same directory × preserve-paths × 0–2 patch archives × explicit/whole × skip-errors × threads × listfile kinds) every filesystem change in the sandbox must be inside the requested output directory; an EACCES from the confinement is a second observation channel.",
         "Exit status not judged (C20); unix path semantics only; no pre-existing symlinks in OUT. Needs Linux ≥ 5.13 with Landlock (exit 2 otherwise): the child is never started unconfined.",
         "DESIGN.md §4 C11"),
 "C20": ("exploration",
         "proptest + deterministic grid enumeration over every sub-command announced by --help; process-level differential against the library evaluated in a supervised worker",
         "Generated file sets and library-built archives are pushed through the real warcraft-rs binary (fresh sandbox per run) and compared with the input bytes and with wow_mpq's own list/get_info/read_file. Every sub-command announced by --help (103 argument templates; a new sub-command without a template fails the check) is run on valid, truncated, mutated, garbage, empty and nonexistent inputs; the library's in-process entry point decides 'must exit non-zero' and the library's parser decides 'exit 0 means the output is complete'; extraction also runs into output directories pre-filled with stale files of the same / other length; a validate report that lists errors must exit non-zero; `list --filter` is compared with an independent matcher; --preserve-paths extraction of one directory spelled in several letter cases must create every spelling; part 3 compares the content of every output file of the converting / rebuilding / patch-chain sub-commands with the library's result.",
         "Text wording, dbd input validity and `mpq db` are not judged. Damaged inputs the library accepts give no verdict, except empty or magic-less files. Exit-code values beyond zero/non-zero are not distinguished. 2 open signatures (legacy .anim placeholder parser accepts any bytes).",
         "DESIGN.md §4 C20"),
 "C01": ("exploration",
         "proptest-generated archive specs + bounded-exhaustive configuration grid; round-trip oracle against generator ground truth, listing and absent-name (collision-searched) probes",
         "Archives are generated over version × sector shift × CRC × attributes × listfile × table compression × per-file method/encryption/language id/size class/content class (sizes placed at S−1, S, S+1, kS/2±2; content that makes some sectors raw and others compressed); every added file is read back under five spellings and compared with the generator's bytes, the listing is compared as a set with sizes, and never-added names (edits, prefixes, names searched to collide with a hash-table start slot or an 8-bit HET hash) must be not-found. A deterministic grid (version × shift{0,3} × 12 selectors × 3 encryption modes × CRC × 9 size classes × content) reaches every essential class whatever the seed. Exploration, not proof: the space is unbounded.",
         "Lossy ADPCM selectors: only length compared. Logical duplicate names are not generated. Archives > 4 GiB out of reach. No open finding (all earlier ones were repaired in /repo).",
         "DESIGN.md §4 C01"),
 "C02": ("exploration",
         "two-way differential against an independent MPQ reader/writer (refmpq) written from the published format; proptest-generated archives on both sides + grids",
         "Direction A parses ArchiveBuilder output with refmpq (header fields, table keys, reference probing, locale/platform fields of the hash entries, per-sector method bytes, standard zlib/bzip2 streams, file keys from the plain name, trailing bytes in clear) and demands bit-identical extraction; direction B serialises abstract archives with refmpq's writer (collision chains through DELETED markers, gaps, reversed order, header behind junk at a 512-aligned offset, single-unit and sectored, raw-sectored uncompressed files, encrypted/fix-key) and demands that Archive::open reads every file bit-identically under each spelling and does not find deleted names. The reference must read its own output first (else exit 2).",
         "The reference is my reading of the published format, not StormLib itself. Subset: V1/V2, classic tables, none/zlib/bzip2; sector checksums (checksum sector behind the data, ADLER32 of the stored sectors, compressed when smaller, never encrypted) are written and verified by the reference on both sides.",
         "DESIGN.md §4 C02"),
 "C07": ("exploration",
         "proptest-generated (source archive × rebuild options) + 4×4 version grid; oracle = generator ground truth vs target contents, listing, summary counts, compare_archives (with metamorphic control)",
         "Sources from the shared generator that read back correctly are rebuilt under generated options; every expected name must read bit-identically from the target, nothing unexpected may be listed, skip filters must be honoured, summary counts must equal what is in the archives, and compare_archives must report no content difference; sources include archives whose user-supplied listfile does not name itself and archives that start behind a prefix (archive offset ≠ 0); a rebuild that fails under verify=true is re-run with verify=false and must not turn out complete (verification may not reject a correct result); a dry run (list_only) is followed by the real run and must have announced its counts — the comparator itself is validated by a twin/one-byte-different control so an always-identical comparator cannot pass.",
         "A rebuild returning Err is accepted (not silent loss) and counted; listfile-less sources have no listed names, so only 'Ok but files missing' is judged there.",
         "DESIGN.md §4 C07"),
 "C09": ("exploration",
         "differential: parallel interfaces vs one sequential handle, proptest request lists with duplicates/missing names, grid over both code paths (≤1000 / >1000 / >5000), repetition under CPU contention",
         "Every parallel interface (extract_with_config on both code paths, ParallelArchive::*, multi-archive helpers) must return one slot per request in request order, each equal to the sequential read (bytes or error kind); skip_errors isolates a missing name to its own slot, without it the call fails as a whole; repeated calls (half under 16 busy threads) must be identical; the configuration is built in every order of its three setters, archives come with a generated, no, or a partial user-supplied listfile; multi-archive helpers get request lists above the batching thresholds in shuffled order and archives with one damaged member (skip_errors on: its own slot fails; off: the call fails); archive lists are given in caller order, not path order; the CLI front end (`mpq extract`, an anchored file) is driven with 1–3 names incl. missing ones × --skip-errors × threads: a failing name may only affect its own slot.",
         "The schedule is rayon's; scheduling independence is sampled, not proved. Thread count 0 / batch size 0 outside the domain.",
         "DESIGN.md §4 C09"),
 "C06": ("exploration",
         "model-based operation histories (bounded-exhaustive short sequences + generated long sequences) interpreted against MutableArchive and a BTreeMap model in supervised worker processes; own delta-debugging shrinker",
         "Every sequence of length ≤3 (thorough ≤4) over a 13-letter alphabet (incl. a replacing add with a method that has no encoder, which must fail and change nothing) on colliding names × 6 starting shapes, table-filling histories (more additions than hash slots), and 3 000 (thorough 40 000) generated histories of up to 60 operations are executed; after every reopen and at the end the archive is read through the read-only API and compared with the model for all 32 pool names (incl. case/slash aliases, a name that is a substring of another, names sharing a start slot, parenthesised user names such as (patch_metadata)) and with the listing. Ok operations update the model, Err operations must leave it unchanged; a worker exhausting 20 CPU-seconds on one history is a non-termination violation.",
         "Reads through the still-open MutableArchive are not judged. V1..V4 starting archives are drawn uniformly (the V3/V4 finding was repaired). Liveness is decided as 'within 10^4× the honest cost'.",
         "DESIGN.md §4 C06"),
 "C15": ("exploration",
         "proptest generators + deterministic grid; round trip through both parser generations; independent chunk walker / reference encoder; metamorphic conversion relation (convert-then-write equals native write)",
         "Quick runs 222 grid/canary cases (11 versions × empty/one/many roots, groups, 49 conversion pairs) plus 40k random roots, 25k groups and 24k conversions (thorough 2.67M). Each root is written, parsed by both parser generations and compared field by field (floats bitwise) with the input; the second write is byte-compared; an independent walker transcribed from the WMO v17 description checks exact chunk tiling, MOHD counts against chunk/record sizes and list lengths, MOTX/MOGN/MODN offset resolution, MOGP extent and sub-chunk reference encodings; conversions must preserve content and serialise like the native target-version value; writers are also run into sinks that already hold a longer file; a skybox handed to a version without one must be dropped completely; a parsed root taken through WmoEditor (convert_to_version, save_root) is saved exactly as write_root writes the editor's root at its current version; doodad set names include two-byte UTF-8 letters.",
         "Trusted: the transcription of record sizes/layouts from the wowdev description. 4 writer/parser disagreements remain open (legacy group parser is a stub, MLIQ header layout, doodad names, empty group name); 10 were repaired in /repo. Group second-write identity and liquid vertices are undecidable until a parser returns them.",
         "DESIGN.md §4 C15"),
 "C10": ("fault_enumeration",
         "enumerated faults (every byte of every protected region × three xor masks + seeded multi-byte overwrites) on one archive per kind of integrity metadata, judged in supervised workers against read / SFileVerifyFile (libstorm.so) / V4 md5_status / verify_signature",
         "For sector-checksum, attributes CRC32, attributes CRC32+MD5, V4 digest and weak-signature archives (also behind a prefix, V3/V4 archives with 1 600 / 2 600 files whose 8-bit HET hashes collide, V4 archives with compressed HET/BET tables) the protected regions are located and every byte is faulted; a faulted image must fail to open/read, or a verify operation must report failure, or every file must still read bit-identical (signed archives: any change ⇒ not WeakValid); intact images must read identically and verify everywhere. Function level: library-generated signatures over random byte strings around the 64 KiB digest unit verify and stop verifying after data-bit and signature-bit flips; the 72-byte signature area is placed inside, touching and straddling (every split) the digest-unit boundaries, every byte within 100 bytes of it must invalidate and every byte inside it must not. Quick enumerates ≈58k faulted images, thorough every mask at every offset (exhaustive over the enumerated regions).",
         "Regions are located with the library's own header/find_file on the intact archive (location only). Only bytes the present metadata protects are faulted. A crash/OOM/hang on a faulted image is not silent corruption: it is counted and judged by C05. The sector offset table of a file is judged only where content digests or a signature protect it (sector checksums cover the stored sectors). One open finding under its own signature: an overwrite that changes sector data and zeroes the checksum entries of the same sectors is accepted (entry 0 = 'no checksum'); any other undetected damage is a violation.",
         "DESIGN.md §4 C10"),
 "C03": ("exploration",
         "proptest-driven seeded generators + deterministic boundary grid + bounded-exhaustive sparse family; round-trip oracle; independent reference decoders (flate2, bzip2, own sparse and DCL decoders) as cross-checks",
         "∀ generated byte strings of length 0..2^21 over 13 content classes and ∀ selectors ∈ {zlib, bzip2, LZMA, sparse, PKWare, ADPCM mono/stereo, all two-flag combinations}: compress never expands, stores raw when not shrunk, prefixes the method byte, and both decompress (default limits) and decompress_secure return the input exactly; for lossy selectors the same length and, on the silent-channel construction, preserved interleaving. 106k cases quick, 1.5M thorough, every listed boundary length hit by construction.",
         "No open finding (the PKWare encoder limitation was repaired in /repo); all exclusion switches are off. ADPCM fidelity and selectors with three or more flags are not decided.",
         "DESIGN.md §4 C03"),
 "C12": ("fault_enumeration",
         "ptrace supervisor numbering every sandbox file-system call of build/compact; every call index × {kill before, kill after, ENOSPC, EIO, short write} + byte quotas; destination-state oracle",
         "For ArchiveBuilder::build (destination absent / existing archive / non-archive bytes × 3 file sets; destinations named dest.mpq, dest.tmp, archive.mpq.tmp or reached through a symbolic link) and MutableArchive::compact, V1..V4, a counting run yields the N file-system calls that touch the sandbox; every k in 1..N is then killed before/after, failed with ENOSPC/EIO or shortened, and byte quotas model a full disk. Afterwards the destination must be absent (only if it was), byte-identical to before, or a complete new archive that opens and reads back every file; reported Err ⇒ previous state, reported Ok ⇒ new state. Exhaustive over k for the enumerated configurations (thorough; quick strides the non-essential previous-state variants).",
         "Process death and failing system calls are modelled, not power-loss reordering. Compaction is traced on a handle without pending changes (in-place flush is not claimed atomic). x86_64 ptrace.",
         "DESIGN.md §4 C12"),
 "C13": ("exploration",
         "property-based round-trip / metamorphic testing (proptest + deterministic grid) with an independent header/record layout walker (m2layout)",
         "On every generated model (28 sections each empty/one/many, key-frame payloads on all track kinds up to 2 049 keys, extreme floats, long names) in versions 256/260/264/272 and the intermediate build numbers 257–259/261–263/265–271, every skin in old/new layouts (header versions 0–4 incl. Legion and BfA) and every anim file in both containers: parse(write(x)) equals x on all listed content bitwise, write(parse(write(x))) == write(x), an independent walker finds every (count, offset) inside the file and non-overlapping, convert to the same version changes neither content nor bytes, and convert a→b (all 25 pairs, both entry points) keeps every field both versions have a slot for; panics are failures; every writer is also run into a sink and a file that already hold a longer file (nothing of the old content may survive). Quick ≈55k cases, thorough 1.28 M.",
         "Sampled, not exhaustive. No retail-format conformance, no chunked MD21 (no writer). One open root cause (legacy .anim container: placeholder parser; 2 signatures) is steered around and measured by canaries; the other ten were repaired in /repo.",
         "DESIGN.md §4 C13"),
 "C14": ("exploration",
         "property-based round-trip (proptest shapes + deterministic materialiser through the public AdtBuilder) + independent chunk/offset walker + metamorphic rebuild rounds + grid and canaries",
         "For 16k (quick) / 410k (thorough) generated tiles over all six target versions: parse_adt(build().to_bytes()) returns the input content bit-for-bit field by field; up to six from_root_adt→to_bytes→parse rounds plus one from_parsed round keep that content and never lengthen the file; in every produced file the chunks tile exactly at both levels and every MHDR/MCIN/MMID/MWID/MCNK-header offset resolves to the named (sub-)chunk, judged by a walker independent of the crate; writing into a sink / over a file that already holds a longer tile must leave exactly the new tile.",
         "No open finding (all seven root causes were repaired in /repo; all switches are off). MH2O internal offsets judged only through the crate's parser; version detection counted, not judged.",
         "DESIGN.md §4 C14"),
 "C16": ("exploration",
         "proptest volume + deterministic grid + exhaustive 64×64 shape sweep; round trip plus an independent byte-level structural judge (blpcheck)",
         "For generated images (1×1…512×512 plus strips with a side of 8 192…65 535, 7 shape classes, 8 pixel classes) × all 25 targets × mipmaps × filters: parse(encode(image_to_blp(img))) equals the encoded texture; header fields, mip chain, per-level sizes and offset/size tables read from the raw bytes satisfy the statement; every level decodes to the halved dimensions; Raw3 level 0 is bit-exact with the source; for Raw1 every decoded colour is the palette entry of the stored index and the stored alpha code is a quantisation (trunc/round/floor/ceil accepted) of the source alpha, and a source of uniform alpha (opaque / transparent) has that alpha code in every smaller level; BLP0 external mip levels: surplus levels must not change the result, a missing one must not be skipped silently; saving over an older, larger texture leaves exactly the new one. Quick ≈70k cases, thorough 642 567.",
         "One open finding: a JPEG BLP with a side of 65 535 that the crate itself encoded panics inside the zune-jpeg dependency on decode (signature names the dependency). Lossy colour fidelity and mip pixel content are not judged.",
         "DESIGN.md §4 C16"),
 "C17": ("exploration",
         "proptest volumes + deterministic grid against an independent WDBC encoder/decoder (dbcenc) and a model table; differential over access paths",
         "≈20 000 (quick) / 400 000 (thorough) generated tables over all nine field types, arrays 1..8, key anywhere, 0..10 000 records, duplicate/empty/non-ASCII/suffix-shared strings, three reference string-block layouts. Each table is parsed from an independently encoded file and compared with the model on the eager, cached-string, lazy (iterator front to back, iterator skipped after being advanced, indexed), memory-mapped and parallel paths (with the checked and with its own unvalidated schema) with hashed and binary key lookups, rewritten with DbcWriter (fresh writer, writer into a used sink, one writer used for two saves), the written bytes judged by an independent decoder (size equation, each string once, every value and reference), and all paths compared again.",
         "No open finding; string blocks without a leading NUL and signed Int32 keys are generated. WDBC only.",
         "DESIGN.md §4 C17"),
 "C18": ("exploration",
         "proptest + bounded-exhaustive enumeration (all 4096 tile indices, version rule, essential grid), independent chunk-walker oracle",
         "For the 10 WDT and 10 WDL versions generated map definitions are written, judged byte-for-byte by an independent chunk walker (exact tiling, documented record layouts, every WDL MAOF offset resolved to the MARE chunk of the right tile), parsed back (explicit version and auto-detection, which must settle on a version that holds the full content), compared on content and re-written byte-identically, also into sinks that hold a longer file; conversions over all version pairs keep MAIN/MAID and heights/holes. The coordinate clause is decided exhaustively for all 4096 tile indices (corner round trip, forward formula, 5 interior points per tile).",
         "Exhaustive only for the coordinate maps and the MWMO version rule; file round trips are sampled. MAID/ML* layouts taken from the crate's own docs.",
         "DESIGN.md §4 C18"),
 "C19": ("exploration",
         "model-based operation histories (deterministic grid + random) against a dlopen'ed libstorm.so in supervised worker processes with guard-page buffers, Rust-API reference and MutableArchive twin; sampled multi-threaded schedules",
         "2 000 (thorough 50 000) random single-threaded histories of 5–90 C-API calls plus a 46-history deterministic grid covering every API × {live, closed, NULL, forged, wrong-kind} handle, every buffer-size class {0,1,n−1,n,n+1,2^31,260}, every seek origin × {inside, beyond end, before start}, masks × callbacks, V1–V4 read-only and writable archives; each call judged against a handle/cursor/search model and the Rust API (same file, or a twin for writable handles); crashes, guard-page hits and self-deadlocks attributed to the in-flight call; 50 (1 000) multi-threaded runs of 2–8 threads × 200 calls over a shared handle pool. One third of the random histories stay on one writable archive and a handful of names, some chosen to collide in the hash table (add → compact → remove → open-file …), judged additionally against a plain map of the handle's own successful add/remove/rename and against the flushed file on disk; threads draining ONE shared file handle must partition the file (every byte handed out exactly once). No open finding.",
         "Schedules are sampled by the OS, not enumerated: absence of races and of schedule-dependent deadlocks is not shown. Verification-result semantics, creation dispositions and ERROR codes are not judged. libstorm.so is the debug build (aborts on UB such as misaligned stores).",
         "DESIGN.md §4 C19"),
}

NOT_YET = "check not built yet in this round (planned in DESIGN.md §4); not claimed until it runs silently on the unchanged tree"
NA = {}

def main():
    props = [json.loads(l) for l in open(os.path.join(ROOT, "properties.jsonl"))]
    checks = []
    na = []
    for p in props:
        pid = p["id"]
        if pid in CHECKS:
            cat, tech, text, note, ref = CHECKS[pid]
            checks.append({
                "property_id": pid,
                "quick_cmd": f"./check {pid} --tier quick",
                "thorough_cmd": f"./check {pid} --tier thorough",
                "evidence_file": f"/verif/evidence/{pid}.json",
                "replay_cmd_template": f"./check {pid} --replay {{path}}",
                "engine": "vcheck",
                "level_claimed": {"category": cat, "text": text, "design_ref": ref},
                "level_note": note,
                "technique": tech,
            })
        else:
            na.append({"property_id": pid, "reason": NA.get(pid, NOT_YET)})
    m = {
        "version": 1,
        "setup_cmd": "./check --setup",
        "hooks": {
            "guard": "verif-hooks (cargo feature; none needed so far)",
            "enable": "no hooks: the harness links /repo crates as path dependencies, drives the CLI as a process and libstorm.so through dlopen",
            "baseline_off_cmd": "cd /repo && cargo nextest run --workspace --no-fail-fast --test-threads 8 --offline || cargo test --workspace --no-fail-fast --offline",
            "source_commits": [],
            "add_only": True,
        },
        "engines": [
            {"name": "vcheck", "path": "/verif/harness", "serves_properties": sorted(CHECKS.keys()),
             "kind_free_text": "Rust harness: proptest-driven generators with fixed seeds, bounded-exhaustive grids, model-based histories, enumerated faults, independent oracles (refcrypt, lookup3, refmpq, chunk walkers, reference encoders), supervised workers, shrinking to JSON replay files"},
        ],
        "checks": checks,
        "not_applicable": na,
        "notes": "Exit protocol: 0 held, 1 VIOLATION (unlisted), 2 check could not run. Known genuine defects are listed in /verif/known_findings.json and printed as KNOWN-FINDING lines. VERIF_SEED / VERIF_TIER honoured.",
    }
    json.dump(m, open(os.path.join(ROOT, "MANIFEST.json"), "w"), indent=1, ensure_ascii=False)
    print("MANIFEST.json:", len(checks), "checks,", len(na), "not_applicable")

main()
