#!/usr/bin/env python3
"""Regenerates /verif/MANIFEST.json from the table below (kept in one place so the manifest
is always valid). Run: python3 tools/mkmanifest.py"""
import json, os, sys
ROOT = os.path.dirname(os.path.dirname(os.path.abspath(__file__)))

CHECKS = {
 # id: (category, technique, text, note, design_ref)
 "C04": ("exploration",
         "exhaustive enumeration of small sub-domains + proptest random strings/keys/buffers vs independent reference (refcrypt, lookup3); round-trip and fold-invariance relations",
         "Every crypt-table entry and every ≤2-byte UTF-8 string is compared with an independent transcription of the published MPQ hash for all four hash types; 60k (quick) / 2M (thorough) generated names add equality, case/slash invariance and het_hash-vs-lookup3 for widths 8..64; the cipher is inverted and compared with the reference for every small length and for random buffers up to 64 KiB incl. lengths not divisible by 4. Exploration is the right level: the domain is infinite, the small sub-domains are enumerated completely.",
         "Trusted: my reference transcriptions (self-checked against published constants: (hash table)/(block table) keys, spec hash examples, lookup3 driver vectors). Non-UTF-8 byte strings cannot be passed through the &str API. Cipher-vs-reference equality is not demanded for key 0.",
         "DESIGN.md §4 C04"),
}

NOT_YET = "check not built yet in this round (planned in DESIGN.md §4); not claimed until it runs silently on the unchanged tree"
NA = {}

def main():
    props = [json.loads(l) for l in open(os.path.join(ROOT, "properties.jsonl"))]
    checks = []
    na = []
    for p in props:
        pid = p["id"]
        if pid in CHECKS:
            cat, tech, text, note, ref = CHECKS[pid]
            checks.append({
                "property_id": pid,
                "quick_cmd": f"./check {pid} --tier quick",
                "thorough_cmd": f"./check {pid} --tier thorough",
                "evidence_file": f"/verif/evidence/{pid}.json",
                "replay_cmd_template": f"./check {pid} --replay {{path}}",
                "engine": "vcheck",
                "level_claimed": {"category": cat, "text": text, "design_ref": ref},
                "level_note": note,
                "technique": tech,
            })
        else:
            na.append({"property_id": pid, "reason": NA.get(pid, NOT_YET)})
    m = {
        "version": 1,
        "setup_cmd": "./check --setup",
        "hooks": {
            "guard": "verif-hooks (cargo feature; none needed so far)",
            "enable": "no hooks: the harness links /repo crates as path dependencies, drives the CLI as a process and libstorm.so through dlopen",
            "baseline_off_cmd": "cd /repo && cargo nextest run --workspace --no-fail-fast --test-threads 8 --offline || cargo test --workspace --no-fail-fast --offline",
            "source_commits": [],
            "add_only": True,
        },
        "engines": [
            {"name": "vcheck", "path": "/verif/harness", "serves_properties": sorted(CHECKS.keys()),
             "kind_free_text": "Rust harness: proptest-driven generators with fixed seeds, bounded-exhaustive grids, model-based histories, enumerated faults, independent oracles (refcrypt, lookup3, refmpq, chunk walkers, reference encoders), supervised workers, shrinking to JSON replay files"},
        ],
        "checks": checks,
        "not_applicable": na,
        "notes": "Exit protocol: 0 held, 1 VIOLATION (unlisted), 2 check could not run. Known genuine defects are listed in /verif/known_findings.json and printed as KNOWN-FINDING lines. VERIF_SEED / VERIF_TIER honoured.",
    }
    json.dump(m, open(os.path.join(ROOT, "MANIFEST.json"), "w"), indent=1, ensure_ascii=False)
    print("MANIFEST.json:", len(checks), "checks,", len(na), "not_applicable")

main()
