#!/bin/bash
# refresh the scratch copy used for mutant runs from /repo's current working tree
rsync -a --delete --exclude target --exclude .git /repo/ /tmp/mut/repo/ && cd /tmp/mut/repo && git add -A >/dev/null 2>&1 && git commit -qm sync >/dev/null 2>&1; echo synced
