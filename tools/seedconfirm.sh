#!/bin/bash
# usage: seedconfirm.sh <ID> <A|B> <crate> <crate-dir-relative> <bin>
# Confirms: patch applies; existing crate tests pass with the mutant; demo fails with / passes without; our check catches it.
set -u
ID=$1; V=$2; CRATE=$3; CDIR=$4; BIN=$5
SRC=/tmp/seedout-$ID/$V
R=/tmp/mut/repo
cd $R && git checkout -q -- . && git clean -fdq -e target >/dev/null 2>&1
git apply --check $SRC/patch.diff || { echo "RESULT $ID/$V patch-does-not-apply"; exit 3; }
# demo without mutant
mkdir -p $R/$CDIR/tests && cp $SRC/demo.rs $R/$CDIR/tests/verif_demo.rs
T0=$(cd $R && cargo test -p $CRATE --offline --test verif_demo 2>&1 | grep -E "^test result|error\[|error:" | head -3 | tr '\n' ' ')
git apply $SRC/patch.diff
T1=$(cd $R && cargo test -p $CRATE --offline --test verif_demo 2>&1 | grep -E "^test result|error\[|error:" | head -3 | tr '\n' ' ')
rm -f $R/$CDIR/tests/verif_demo.rs
# existing suite with mutant
TS=$(cd $R && cargo test -p $CRATE --offline 2>&1 | grep -E "^test result" | awk '{p+=$4; f+=$6} END {print "passed",p,"failed",f}')
git diff > /tmp/mut/p/seed_${ID}_$V.diff
git checkout -q -- .
echo "RESULT $ID/$V demo-clean=[$T0] demo-mutant=[$T1] suite-with-mutant=[$TS]"
/verif/tools/mutrun.sh $BIN /tmp/mut/p/seed_${ID}_$V.diff 2>&1 | cut -c1-220 | head -8
