#!/bin/bash
# usage: seedconfirm.sh <ID> <A|B> <crate> <crate-dir-relative> <bin> [storm]
# Confirms a delivered seed (/tmp/seedout-<ID>/<V>): patch applies to the scratch copy of /repo's
# current tree; the demonstration passes without and fails with the change; the affected crate's
# existing test suite passes with the change; then runs our check against it. Writes
# /tmp/mut/results/<ID>_<V>.json. With "storm" as 6th argument the demo is a stand-alone program
# linked against libstorm.so (C API), not an integration test.
set -u
ID=$1; V=$2; CRATE=$3; CDIR=$4; BIN=$5; KIND=${6:-test}
SRC=/tmp/seedout-$ID/$V
R=/tmp/mut/repo
mkdir -p /tmp/mut/results /tmp/mut/p
cd $R && git checkout -q -- . && git clean -fdq -e target >/dev/null 2>&1
git apply --check $SRC/patch.diff || { echo "RESULT $ID/$V patch-does-not-apply"; exit 3; }
if [ "$KIND" = storm ]; then
  ( cd $R && cargo build -p storm-ffi --offline >/dev/null 2>&1 )
  rustc --edition 2021 $SRC/demo.rs -L $R/target/debug -l dylib=storm -o /tmp/mut/demo_$ID$V 2>/dev/null
  T0=$(cd /tmp/mut && LD_LIBRARY_PATH=$R/target/debug timeout 120 /tmp/mut/demo_$ID$V 2>&1 | tail -1; echo "exit=${PIPESTATUS[0]}")
  git apply $SRC/patch.diff
  ( cd $R && cargo build -p storm-ffi --offline >/dev/null 2>&1 )
  T1=$(cd /tmp/mut && LD_LIBRARY_PATH=$R/target/debug timeout 120 /tmp/mut/demo_$ID$V 2>&1 | tail -1; echo "exit=${PIPESTATUS[0]}")
  rm -f /tmp/mut/demo_$ID$V
else
  mkdir -p $R/$CDIR/tests && cp $SRC/demo.rs $R/$CDIR/tests/verif_demo.rs
  T0=$(cd $R && cargo test -p $CRATE --offline --test verif_demo 2>&1 | grep -E "^test result|error\[|error:" | head -3 | tr '\n' ' ')
  git apply $SRC/patch.diff
  T1=$(cd $R && cargo test -p $CRATE --offline --test verif_demo 2>&1 | grep -E "^test result|error\[|error:" | head -3 | tr '\n' ' ')
  rm -f $R/$CDIR/tests/verif_demo.rs
fi
TS=$(cd $R && cargo test -p $CRATE --offline 2>&1 | grep -E "^test result" | awk '{p+=$4; f+=$6} END {print "passed",p,"failed",f}')
git diff > /tmp/mut/p/seed_${ID}_$V.diff
git checkout -q -- .
echo "RESULT $ID/$V demo-clean=[$T0] demo-mutant=[$T1] suite-with-mutant=[$TS]"
/verif/tools/mutrun.sh $BIN /tmp/mut/p/seed_${ID}_$V.diff > /tmp/mut/mutrun_${ID}_$V.txt 2>&1
cut -c1-220 /tmp/mut/mutrun_${ID}_$V.txt | grep -v conda | head -8
python3 - "$ID" "$V" "$CRATE" "$BIN" "$T0" "$T1" "$TS" <<'PY'
import sys, json, re, subprocess
ID,V,CRATE,BIN,T0,T1,TS=sys.argv[1:8]
out=open(f"/tmp/mut/mutrun_{ID}_{V}.txt").read()
ex=re.search(r"exit=(\d+)",out)
sigs=sorted(set(re.findall(r"signature: (\S+)",out)))
tier=re.search(r"^\s*\d+ (C\d\d tier=.*)$",out,re.M)
head=subprocess.run(["git","-C","/repo","rev-parse","--short","HEAD"],capture_output=True,text=True).stdout.strip()
vh=subprocess.run(["git","-C","/verif","rev-parse","--short","HEAD"],capture_output=True,text=True).stdout.strip()
json.dump({"seed":f"{ID}-{V}","crate":CRATE,"check_bin":BIN,"repo_head":head,"verif_head":vh,
  "demo_on_clean_tree":T0.strip(),"demo_with_change":T1.strip(),"crate_suite_with_change":TS.strip(),
  "check_exit":int(ex.group(1)) if ex else None,"check_signatures":sigs,"check_tier_line":tier.group(1) if tier else None},
  open(f"/tmp/mut/results/{ID}_{V}.json","w"),indent=1)
PY
