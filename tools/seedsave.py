#!/usr/bin/env python3
"""Copies every confirmed seeded change from /tmp/seedout-<ID>/<V> (+ the rebased diff and the
confirmation record written by tools/seedconfirm.sh) into /verif/seeded/<ID>-<V>/ and writes
/verif/seeded/INDEX.md (the table DESIGN.md §10 refers to)."""
import json, os, shutil, glob, sys
OUT = "/verif/seeded"
os.makedirs(OUT, exist_ok=True)
rows = []
for res in sorted(glob.glob("/tmp/mutlane*/results/*.json"), key=lambda x: os.path.basename(x)):
    r = json.load(open(res))
    pid, v = r["seed"].split("-")
    src = f"/tmp/seedout-{pid}/{v}"
    if not os.path.isdir(src):
        continue
    d = f"{OUT}/{pid}-{v}"
    os.makedirs(d, exist_ok=True)
    if not r.get("applies", True):
        # superseded: a later repair in /repo rewrote the lines the change touched (kept for the record)
        for fn in ("patch.diff", "demo.rs", "demo.sh", "README.md", "patch.orig.diff"):
            if os.path.exists(f"{src}/{fn}"):
                shutil.copy(f"{src}/{fn}", f"{d}/{fn}")
        meta = json.load(open(f"{src}/meta.json"))
        meta.update({"id": f"{pid}-{v}", "origin": "fresh sub-agent given only the property text and a scratch worktree",
                     "confirmed_by_coordinator": {"no_longer_applies": True, "note": "the patch no longer applies: a repair made in /repo after this change was confirmed and caught rewrote the same lines (see DESIGN.md §10)"}})
        json.dump(meta, open(f"{d}/meta.json", "w"), indent=1, ensure_ascii=False)
        rows.append((f"{pid}-{v}", meta.get("title", ""), meta.get("needs_to_manifest", ""), "obsolete", False, []))
        continue
    diff = r.get("patch", "")
    shutil.copy(diff if os.path.exists(diff) else f"{src}/patch.diff", f"{d}/patch.diff")
    for fn in ("demo.rs", "demo.sh", "demo.c", "run_demo.sh", "README.md", "patch.orig.diff", "demo.orig.rs"):
        if os.path.exists(f"{src}/{fn}"):
            shutil.copy(f"{src}/{fn}", f"{d}/{fn}")
    meta = json.load(open(f"{src}/meta.json"))
    clean_pass = ("test result: ok" in r["demo_on_clean_tree"] and "FAILED" not in r["demo_on_clean_tree"]) or ("exit=0" in r["demo_on_clean_tree"])
    change_pass = ("test result: ok" in r["demo_with_change"] and "FAILED" not in r["demo_with_change"]) or ("exit=0" in r["demo_with_change"])
    demo_ok = clean_pass and not change_pass
    obsolete = clean_pass and change_pass
    suite_ok = r["crate_suite_with_change"].endswith("failed 0")
    caught = r["check_exit"] == 1 and len(r["check_signatures"]) > 0
    meta.update({
        "id": f"{pid}-{v}",
        "origin": "fresh sub-agent given only the property text and a scratch worktree",
        "confirmed_by_coordinator": {
            "what_was_run": [
                f"git apply patch.diff (scratch copy of /repo at {r['repo_head']})",
                f"cargo test -p {r['crate']} --offline --test verif_demo   # demo.rs, without and with the change" if "storm" not in r["crate"] else "rustc demo.rs -l dylib=storm; run against libstorm.so built without and with the change",
                f"cargo test -p {r['crate']} --offline                     # existing suite with the change",
                f"tools/mutrun.sh {r['check_bin']} patch.diff               # ./check {pid} --tier quick against the changed tree (verif {r['verif_head']})",
            ],
            "demo_on_clean_tree": r["demo_on_clean_tree"],
            "demo_with_change": r["demo_with_change"],
            "crate_suite_with_change": r["crate_suite_with_change"],
            "demonstration_confirmed": demo_ok,
            "no_longer_manifests": obsolete,
            "note": ("the demonstration passes with the change on the current tree: a later repair in /repo removed the state this change relied on, so it no longer breaks the property (kept for the record; it was confirmed and caught on the tree it was written for)" if obsolete else ("patch and/or demo were re-based onto the current tree after repairs in /repo touched the same lines (originals kept as patch.orig.diff / demo.orig.rs)" if os.path.exists(f"{src}/patch.orig.diff") or os.path.exists(f"{src}/demo.orig.rs") else "")),
            "existing_suite_passes": suite_ok,
        },
        "check_result": {"exit": r["check_exit"], "caught": caught, "signatures": r["check_signatures"], "tier_line": r["check_tier_line"]},
    })
    json.dump(meta, open(f"{d}/meta.json", "w"), indent=1, ensure_ascii=False)
    rows.append((f"{pid}-{v}", meta.get("title", ""), meta.get("needs_to_manifest", ""), "obsolete" if obsolete else (demo_ok and suite_ok), caught, r["check_signatures"]))
# seeds saved by earlier sessions (their lane results are gone): rows from their stored meta.json
done = {r[0] for r in rows}
for d in sorted(glob.glob(f"{OUT}/C??-*")):
    sid = os.path.basename(d)
    if sid in done or "-own" in sid or not os.path.exists(f"{d}/meta.json"):
        continue
    m = json.load(open(f"{d}/meta.json"))
    c = m.get("confirmed_by_coordinator", {})
    if c.get("no_longer_applies") or c.get("no_longer_manifests"):
        st = "obsolete"
    else:
        st = bool(c.get("demonstration_confirmed")) and bool(c.get("existing_suite_passes"))
    cr = m.get("check_result", {})
    rows.append((sid, m.get("title", ""), m.get("needs_to_manifest", ""), st, cr.get("caught", False), cr.get("signatures", [])))
rows.sort(key=lambda r: r[0])
# own mutants (hand-written during development) keep their directories: list them too
for d in sorted(glob.glob(f"{OUT}/*-own-*")):
    m = json.load(open(f"{d}/meta.json"))
    rows.append((os.path.basename(d), m.get("title", ""), m.get("needs_to_manifest", ""), True, m.get("check_result", {}).get("caught", False), m.get("check_result", {}).get("signatures", [])))
with open(f"{OUT}/INDEX.md", "w") as f:
    f.write("| seeded change | what it is | needs to manifest | confirmed (demo + suite) | caught by quick check | signatures reported |\n|---|---|---|---|---|---|\n")
    for r in rows:
        conf = "no longer manifests (repo fix)" if r[3] == "obsolete" else ("yes" if r[3] else "NO")
        f.write(f"| {r[0]} | {r[1]} | {r[2][:160]} | {conf} | {'yes' if r[4] else ('n/a' if r[3]=='obsolete' else 'NO')} | {', '.join(r[5][:3])}{' …' if len(r[5])>3 else ''} |\n")
print(len(rows), "seeds saved;", sum(1 for r in rows if not r[4] and r[3] != "obsolete"), "not caught;", sum(1 for r in rows if r[3] is False), "not confirmed;", sum(1 for r in rows if r[3]=="obsolete"), "obsolete")
