#!/bin/bash
# usage: agentrun.sh <name> <repo-worktree> <bin> [check args…]
# Runs one property check of /verif/harness against a scratch worktree of /repo (for fix agents):
# private copy of the harness under /tmp/fixh-<name>, private target dir, private output root.
set -u
NAME=$1; WT=$2; BIN=$3; shift 3
H=/tmp/fixh-$NAME/harness
mkdir -p $H /tmp/fixh-$NAME/out
rsync -a --exclude target --exclude Cargo.toml --exclude .cargo /verif/harness/ $H/
sed "s|\"/repo/|\"$WT/|g" /verif/harness/Cargo.toml > $H/Cargo.toml
mkdir -p $H/.cargo
printf '[build]\ntarget-dir = "/verif/target/fixh-%s"\n[net]\noffline = true\n' "$NAME" > $H/.cargo/config.toml
cp $WT/Cargo.lock $H/Cargo.lock 2>/dev/null
( cd $H && cargo build --bin $BIN 2>&1 | grep -E "^error" -A8 | head -30 )
cd /verif && VERIF_ROOT=/tmp/fixh-$NAME/out /verif/target/fixh-$NAME/debug/$BIN "$@"
