#!/usr/bin/env python3
"""Writes /verif/FIXES.md: every unguarded `fix:` commit made in /repo, with the property and
signatures (from known_findings.json) it is recorded under."""
import json, subprocess, re
log = subprocess.run(["git","-C","/repo","log","--reverse","--format=%h\t%s","9124e75..HEAD"],capture_output=True,text=True).stdout.strip().splitlines()
k = json.load(open("/verif/known_findings.json"))["findings"]
by = {}
for f in k:
    if f.get("status") == "fixed":
        for h in re.findall(r"[0-9a-f]{7,}", f.get("commit","")):
            by.setdefault(h, []).append((f["property"], f["signature"]))
# ranges a..b: attribute to every commit in between
ranges = [(f, re.findall(r"[0-9a-f]{7,}", f["commit"])) for f in k if f.get("status")=="fixed" and ".." in f.get("commit","")]
hashes = [l.split("\t")[0] for l in log]
for f, hs in ranges:
    if len(hs)==2 and hs[0] in hashes and hs[1] in hashes:
        for h in hashes[hashes.index(hs[0]):hashes.index(hs[1])+1]:
            by.setdefault(h, [])
            if (f["property"], f["signature"]) not in by[h]: by[h].append((f["property"], f["signature"]))
with open("/verif/FIXES.md","w") as o:
    o.write("# Repairs made in /repo (unguarded `fix:` commits, oldest first)\n\n")
    o.write(f"{len(log)} commits on top of the pinned snapshot `9124e75`. Each is a minimal repair of a genuine defect found by a check in /verif (or, where no signature is listed, found while repairing/reviewing the same code path and covered by the same check); the existing test suite passes unedited with all of them.\n\n| commit | subject | recorded under (property: signature) |\n|---|---|---|\n")
    for l in log:
        h, s = l.split("\t", 1)
        rec = "; ".join(f"{p}: `{sg}`" for p, sg in by.get(h, [])[:4]) + (" …" if len(by.get(h, []))>4 else "")
        o.write(f"| {h} | {s} | {rec} |\n")
print(len(log), "commits;", sum(1 for l in log if l.split('\t')[0] in by), "mapped to findings")
