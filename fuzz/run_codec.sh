#!/bin/bash
# Coverage-guided part of C03: libFuzzer campaigns over the `codec` target (round-trip oracle inside).
#
#   run_codec.sh <quick|thorough> <seed> <out-dir> <seed-corpus-dir>
#
# Fixed work: 8 campaigns (4 from the seed corpus written by `c03 --dump-fuzz-seeds`, 4 from an empty
# corpus), each `-runs=N -seed=<derived>` in a fresh corpus directory, all in parallel.
# quick: 15 000 runs per campaign; thorough: 1 000 000 (seeded) / 500 000 (empty).
# Judges nothing: writes <out-dir>/summary.json (one record per campaign with its artifacts); `c03`
# re-runs every artifact through its own oracle.
# Exit 0 = campaigns ran; 3 = build failed; 4 = a campaign ended without finishing and without artifact.
set -u
TIER=${1:-}; SEED=${2:-}; OUT=${3:-}; SEEDS=${4:-}
case "$TIER" in quick|thorough) ;; *) echo "usage: run_codec.sh <quick|thorough> <seed> <out> <seeds>"; exit 4;; esac
[ -n "$OUT" ] && [ -d "$SEEDS" ] || { echo "usage: run_codec.sh <quick|thorough> <seed> <out> <seeds>"; exit 4; }
FUZZ_DIR=$(cd "$(dirname "$0")" && pwd)
TD=${VERIF_FUZZ_TARGET_DIR:-/verif/target/fuzz}
BIN=$TD/x86_64-unknown-linux-gnu/release/codec
SCALE=${VERIF_FUZZ_RUNS_SCALE:-100}
"$FUZZ_DIR/build.sh" || exit 3
[ -x "$BIN" ] || { echo "run_codec.sh: $BIN missing"; exit 3; }
rm -rf "$OUT"; mkdir -p "$OUT/work" "$OUT/art" "$OUT/logs" "$OUT/rec"
lf_seed() { local h; h=$(printf '%s:codec:%s' "$SEED" "$1" | cksum | cut -d' ' -f1); echo $(( (h % 4294967294) + 1 )); }
campaign() { # $1 name $2 kind $3 runs
  local name=$1 kind=$2 want=$3 work=$OUT/work/$1 art=$OUT/art/$1 log=$OUT/logs/$1.log
  mkdir -p "$work" "$art"
  [ "$kind" = seeded ] && cp "$SEEDS"/* "$work"/
  local done_runs=0 attempt=0 code=0 incomplete=0 started; started=$(date +%s)
  : > "$log"
  while :; do
    local left=$((want - done_runs)) s; s=$(lf_seed "$name:$attempt")
    "$BIN" -runs="$left" -seed="$s" -len_control=0 -max_len=8192 -timeout=30 -rss_limit_mb=3072 -malloc_limit_mb=1024 \
       -detect_leaks=0 -print_final_stats=1 -artifact_prefix="$art/" "$work" > "$log.$attempt" 2>&1
    code=$?
    cat "$log.$attempt" >> "$log"
    local ex; ex=$(grep -E '^stat::number_of_executed_units:' "$log.$attempt" | tail -1 | awk '{print $2}')
    [ -z "$ex" ] && ex=$(grep -E '^#[0-9]+' "$log.$attempt" | tail -1 | sed -E 's/^#([0-9]+).*/\1/')
    done_runs=$((done_runs + ${ex:-0})); rm -f "$log.$attempt"
    [ "$code" -eq 0 ] && break
    if [ -z "$(ls -A "$art" 2>/dev/null)" ]; then incomplete=1; break; fi
    # set aside corpus files that are themselves failing inputs, then go on with the remaining runs
    local a h
    for a in "$art"/*; do h=${a##*-}; sha1sum "$work"/* 2>/dev/null | awk -v h="$h" '$1 == h { print $2 }' | while read -r f; do rm -f "$f"; done; done
    attempt=$((attempt + 1))
    if [ "$attempt" -gt 6 ] || [ "$done_runs" -ge "$want" ]; then break; fi
  done
  local last cov ft; last=$(grep -E '^#[0-9]+.*cov: ' "$log" | tail -1)
  cov=$(echo "$last" | sed -nE 's/.*cov: ([0-9]+).*/\1/p'); ft=$(echo "$last" | sed -nE 's/.*ft: ([0-9]+).*/\1/p')
  local arts="[" first=1 f
  for f in "$art"/*; do [ -f "$f" ] || continue; [ $first = 1 ] || arts="$arts,"; arts="$arts\"$f\""; first=0; done
  arts="$arts]"
  printf '{"name":"%s","corpus_kind":"%s","runs_requested":%s,"runs":%s,"cov":%s,"ft":%s,"corpus_files":%s,"wall_s":%s,"exit":%s,"restarts":%s,"incomplete":%s,"artifacts":%s}\n' \
    "$name" "$kind" "$want" "$done_runs" "${cov:-0}" "${ft:-0}" "$(ls "$work" | wc -l)" "$(( $(date +%s) - started ))" "$code" "$attempt" "$incomplete" "$arts" > "$OUT/rec/$name.json"
}
if [ "$TIER" = quick ]; then RS=15000; RE=15000; else RS=1000000; RE=500000; fi
RS=$((RS * SCALE / 100)); RE=$((RE * SCALE / 100))
for i in 1 2 3 4; do campaign "seeded-$i" seeded "$RS" & done
for i in 1 2 3 4; do campaign "empty-$i" empty "$RE" & done
wait
status=0
{ printf '{"tier":"%s","seed":%s,"campaigns":[' "$TIER" "$SEED"; first=1
  for n in seeded-1 seeded-2 seeded-3 seeded-4 empty-1 empty-2 empty-3 empty-4; do
    f=$OUT/rec/$n.json; [ -s "$f" ] || { status=4; continue; }
    [ $first = 1 ] || printf ','; cat "$f"; first=0
  done; printf ']}\n'; } > "$OUT/summary.json"
grep -q '"incomplete":1' "$OUT/summary.json" && status=4
rm -rf "$OUT/work"
echo "run_codec.sh: tier=$TIER seed=$SEED status=$status summary=$OUT/summary.json"
exit $status
