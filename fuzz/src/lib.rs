//! Glue between libFuzzer and `vcheck::targets::run_target` (engine B of C05).
//!
//! * libfuzzer-sys installs a panic hook that aborts the process. On the first input it is replaced
//!   by the harness hook (`vcheck::engine::install_panic_hook`), which records site and message;
//!   `vcheck::engine::guard` turns a panic into the same signature engine A's `judge()` builds:
//!   `panic:<site>:<normalised message>@<format>`.
//! * Panics whose signature matches an *open* C05 entry of the known-findings file(s) are counted
//!   and tolerated, so a campaign is not spent rediscovering one crash. Every other panic prints
//!   `FUZZ-PANIC signature=…` and aborts, so libFuzzer stores the input as `crash-<sha1>`.
//!   Allocation blow-ups and hangs are libFuzzer's business (`-malloc_limit_mb`, `-rss_limit_mb`,
//!   `-timeout`); stack overflows and aborts reach libFuzzer's signal handlers unchanged.
//! * Artifacts are *never* judged here: `c05 --classify` re-runs them in engine A's supervised worker.
//!
//! Environment:
//!   VERIF_KNOWN_FINDINGS  known-findings file (default /verif/known_findings.json)
//!   VERIF_KNOWN_EXTRA     additional file of the same format (development)
//!   VERIF_FUZZ_STRICT=1   tolerate nothing (used to reproduce a known panic under libFuzzer)
//!   VERIF_FUZZ_STATS      file that receives `{"inputs":n,"tolerated":{signature:count}}`
//!   VERIF_FUZZ_SCRATCH    directory for the files the mpq/dbc targets must write (created here;
//!                         default: /dev/shm/vfuzz-<format>-<pid>, removed at normal exit)
use std::collections::BTreeMap;
use std::path::PathBuf;
use std::sync::atomic::{AtomicU64, Ordering};
use std::sync::{Mutex, OnceLock};

struct State {
    known: Vec<String>,
    scratch: PathBuf,
    own_scratch: bool,
    stats_path: Option<PathBuf>,
    tolerated: Mutex<BTreeMap<String, u64>>,
}

static STATE: OnceLock<State> = OnceLock::new();
static INPUTS: AtomicU64 = AtomicU64::new(0);
static TOLERATED_TOTAL: AtomicU64 = AtomicU64::new(0);

fn load_known() -> Vec<String> {
    if std::env::var("VERIF_FUZZ_STRICT").map(|v| v == "1").unwrap_or(false) {
        return vec![];
    }
    let mut files = vec![PathBuf::from(std::env::var("VERIF_KNOWN_FINDINGS").unwrap_or_else(|_| "/verif/known_findings.json".into()))];
    if let Ok(x) = std::env::var("VERIF_KNOWN_EXTRA") {
        files.push(PathBuf::from(x));
    }
    let mut out = vec![];
    for p in files {
        let Ok(s) = std::fs::read_to_string(&p) else { continue };
        let v: serde_json::Value = match serde_json::from_str(&s) {
            Ok(v) => v,
            Err(e) => {
                // a broken list must not silently turn known findings into crashes (or the reverse)
                eprintln!("FUZZ-SETUP-ERROR {p:?} unreadable: {e}");
                std::process::exit(2)
            }
        };
        for f in v["findings"].as_array().cloned().unwrap_or_default() {
            if f["property"].as_str() == Some("C05") && f["status"].as_str().unwrap_or("open") == "open" {
                if let Some(sig) = f["signature"].as_str() {
                    out.push(sig.to_string());
                }
            }
        }
    }
    out
}

fn write_stats(st: &State) {
    if let Some(p) = &st.stats_path {
        let t = st.tolerated.lock().map(|t| t.clone()).unwrap_or_default();
        let body = serde_json::json!({"inputs": INPUTS.load(Ordering::Relaxed), "tolerated": t});
        let tmp = p.with_extension("tmp");
        if std::fs::write(&tmp, body.to_string()).is_ok() {
            let _ = std::fs::rename(&tmp, p);
        }
    }
}

extern "C" fn at_exit() {
    if let Some(st) = STATE.get() {
        write_stats(st);
        if st.own_scratch {
            let _ = std::fs::remove_dir_all(&st.scratch);
        }
    }
}

fn init(format: &str) -> State {
    // replaces libfuzzer-sys's abort-on-panic hook
    vcheck::engine::install_panic_hook();
    let (scratch, own) = match std::env::var("VERIF_FUZZ_SCRATCH") {
        Ok(d) => (PathBuf::from(d), false),
        Err(_) => {
            let base = if std::path::Path::new("/dev/shm").is_dir() { PathBuf::from("/dev/shm") } else { std::env::temp_dir() };
            (base.join(format!("vfuzz-{format}-{}", std::process::id())), true)
        }
    };
    if let Err(e) = std::fs::create_dir_all(&scratch) {
        eprintln!("FUZZ-SETUP-ERROR cannot create scratch dir {scratch:?}: {e}");
        std::process::exit(2);
    }
    unsafe {
        libc::atexit(at_exit);
    }
    State {
        known: load_known(),
        scratch,
        own_scratch: own,
        stats_path: std::env::var("VERIF_FUZZ_STATS").ok().map(PathBuf::from),
        tolerated: Mutex::new(BTreeMap::new()),
    }
}

/// One libFuzzer input for one format family.
pub fn fuzz_one(format: &'static str, data: &[u8]) {
    let st = STATE.get_or_init(|| init(format));
    INPUTS.fetch_add(1, Ordering::Relaxed);
    let r = vcheck::engine::guard(format, || vcheck::targets::run_target(format, data, &st.scratch));
    if let Err(f) = r {
        let sig = vcheck::targets::c05_panic_signature(&f.signature);
        if let Some(k) = st.known.iter().find(|k| vcheck::engine::sig_match(k, &sig)) {
            *st.tolerated.lock().unwrap().entry(k.clone()).or_insert(0) += 1;
            let n = TOLERATED_TOTAL.fetch_add(1, Ordering::Relaxed) + 1;
            if n.is_power_of_two() {
                write_stats(st);
            }
            return;
        }
        eprintln!("FUZZ-PANIC signature={sig}\n  {} (input {} bytes)", f.message, data.len());
        write_stats(st);
        if st.own_scratch {
            let _ = std::fs::remove_dir_all(&st.scratch);
        }
        std::process::abort();
    }
}
