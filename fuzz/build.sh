#!/bin/bash
# Build the 15 libFuzzer targets of C05 engine B (ASan, release + debug assertions + overflow checks).
# Called by `/verif/check --setup` and by run.sh. Cargo decides what is stale (path dependencies on
# /verif/harness and, through it, on the crates in /repo), so an up-to-date tree returns in < 1 s.
# Exit 0 = targets are built; 1 = build failed (tail of the log is printed).
set -u
FUZZ_DIR=$(cd "$(dirname "$0")" && pwd)
LOG_DIR=${VERIF_FUZZ_LOG_DIR:-/verif/target/logs}
mkdir -p "$LOG_DIR"
LOG=$LOG_DIR/build-fuzz.log
export CARGO_NET_OFFLINE=true
# cwd must be the fuzz crate: its .cargo/config.toml carries `net.offline` and `build.target-dir`
# (cargo-fuzz rejects --offline), and it must not be inside /repo (its config adds -D warnings)
cd "$FUZZ_DIR" || exit 1
if ! cargo +nightly fuzz --version >/dev/null 2>&1; then
  echo "fuzz build: cargo-fuzz / nightly toolchain not available"; exit 1
fi
if ! cargo +nightly fuzz build --fuzz-dir "$FUZZ_DIR" >"$LOG" 2>&1; then
  echo "fuzz build failed; see $LOG"; grep -E "^error" -A8 "$LOG" | head -40; tail -5 "$LOG"; exit 1
fi
exit 0
