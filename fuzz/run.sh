#!/bin/bash
# Engine B of C05: coverage-guided campaigns over the 15 libFuzzer targets.
#
#   run.sh <quick|thorough> <seed>
#
# Fixed work, not time: every campaign gets `-runs=N` (per target and tier, table below) and
# `-seed=<derived from <seed> and the campaign name>`; each target runs twice, once from the seed
# corpus written by `c05 --dump-seeds` ("seeded") and once from an empty corpus ("empty"), each in a
# fresh corpus directory, at most $JOBS (16) processes at a time, longest first.
# A campaign that stops on an artifact (crash-/oom-/timeout-) is restarted on its grown corpus with
# the remaining runs (at most $MAX_RESTARTS = 8 times; corpus files that are themselves failing inputs are set aside) so that one non-reproducing artifact does not end it early.
#
# Output: $OUT/summary.json (default /verif/target/fuzz-out), logs, artifacts, per-campaign corpora.
# This script judges nothing: `c05` reads the summary and classifies every artifact in engine A's
# supervised worker (`c05 --classify`, or the normal C05 run).
# Exit: 0 = all campaigns ran (with or without artifacts); 3 = build failed; 4 = a campaign could not
# run / did not complete for a reason other than an artifact. Never 1.
#
# Environment: VERIF_FUZZ_OUT, VERIF_FUZZ_CORPUS, VERIF_FUZZ_TARGET_DIR, VERIF_C05_BIN (binary that
# understands --dump-seeds), VERIF_FUZZ_JOBS, VERIF_FUZZ_TARGETS (subset, space separated),
# VERIF_FUZZ_RUNS_SCALE (percent, default 100; development only), VERIF_KNOWN_EXTRA (passed through).
set -u
TIER=${1:-}; SEED=${2:-}
case "$TIER" in quick|thorough) ;; *) echo "usage: run.sh <quick|thorough> <seed>"; exit 4;; esac
case "$SEED" in ''|*[!0-9]*) echo "usage: run.sh <quick|thorough> <seed>   (seed = unsigned integer)"; exit 4;; esac

FUZZ_DIR=$(cd "$(dirname "$0")" && pwd)
TD=${VERIF_FUZZ_TARGET_DIR:-/verif/target/fuzz}
OUT=${VERIF_FUZZ_OUT:-/verif/target/fuzz-out}
CORPUS=${VERIF_FUZZ_CORPUS:-/verif/target/fuzz-corpus}
C05=${VERIF_C05_BIN:-/verif/target/harness/debug/c05}
JOBS=${VERIF_FUZZ_JOBS:-16}
SCALE=${VERIF_FUZZ_RUNS_SCALE:-100}
MAX_RESTARTS=8
BIN=$TD/x86_64-unknown-linux-gnu/release
ALL_TARGETS="mpq attributes listfile patch decompress m2 skin anim adt wmo_root wmo_group blp dbc wdt wdl"
TARGETS=${VERIF_FUZZ_TARGETS:-$ALL_TARGETS}
T0=$(date +%s)

# ---- work table: runs per campaign. Measured seeded throughput on this machine with all targets in
# parallel (exec/s): mpq 880, patch 16000, decompress 1170, m2 9900, skin 17800, anim 11800, adt 2670,
# wmo_root 1100, wmo_group 9000, blp 535, dbc 15100, wdt 920, wdl 1880.
# quick ≈ 40 s (seeded) + 20 s (empty) per target; thorough ≈ 12–15 min (seeded) + 5–7 min (empty).
runs_for() { # $1 target $2 tier $3 kind
  local q t
  case "$1" in
    mpq)        q=25000;  t=500000;;
    patch)      q=400000; t=5000000;;
    decompress) q=30000;  t=700000;;
    m2)         q=250000; t=5000000;;
    skin)       q=400000; t=5000000;;
    anim)       q=300000; t=5000000;;
    adt)        q=60000;  t=1500000;;
    wmo_root)   q=30000;  t=700000;;
    wmo_group)  q=200000; t=4000000;;
    blp)        q=15000;  t=350000;;
    dbc)        q=200000; t=2500000;;   # schema-driven access paths since wave 4: ≈4400 exec/s
    wdt)        q=25000;  t=600000;;
    wdl)        q=50000;  t=1200000;;
    attributes) q=300000; t=4000000;;
    listfile)   q=150000; t=2000000;;
    *)          q=20000;  t=500000;;
  esac
  local n; if [ "$2" = quick ]; then n=$q; else n=$t; fi
  if [ "$3" = empty ]; then
    n=$((n / 2))
    # from nothing libFuzzer does get past the MPQ header search, and then runs at < 100 exec/s on inputs of
    # 10-20 KB (measured: 156 k runs in 31 min under load); cap that campaign
    if [ "$1" = mpq ] && [ "$2" = thorough ]; then n=60000; fi
  fi
  n=$((n * SCALE / 100)); [ "$n" -lt 100 ] && n=100
  echo "$n"
}
max_len_for() { case "$1" in mpq) echo 262144;; *) echo 65536;; esac; }
# libFuzzer seed: 32 bits, never 0 (0 = "pick one from the clock")
lf_seed() { # $1 campaign name, $2 attempt
  local h; h=$(printf '%s:%s:%s' "$SEED" "$1" "$2" | cksum | cut -d' ' -f1)
  echo $(( (h % 4294967294) + 1 ))
}

# ---- build + seed corpus
"$FUZZ_DIR/build.sh" || { echo "run.sh: fuzz targets could not be built"; exit 3; }
for t in $TARGETS; do [ -x "$BIN/$t" ] || { echo "run.sh: missing target binary $BIN/$t"; exit 3; }; done
[ -x "$C05" ] || { echo "run.sh: $C05 (for --dump-seeds) not found; build it with ./check C05 or set VERIF_C05_BIN"; exit 4; }
rm -rf "$CORPUS/seeds"; mkdir -p "$CORPUS"
"$C05" --dump-seeds "$CORPUS/seeds" >/dev/null || { echo "run.sh: $C05 --dump-seeds failed"; exit 4; }
for t in $TARGETS; do
  [ -n "$(ls -A "$CORPUS/seeds/$t" 2>/dev/null)" ] || { echo "run.sh: no seeds for $t"; exit 4; }
done

rm -rf "$OUT"; mkdir -p "$OUT/logs" "$OUT/artifacts" "$OUT/work" "$OUT/stats" "$OUT/rec"
SCRATCH=/dev/shm/vfuzz-run-$$; [ -d /dev/shm ] || SCRATCH=${TMPDIR:-/tmp}/vfuzz-run-$$
mkdir -p "$SCRATCH"; trap 'rm -rf "$SCRATCH"' EXIT

# ---- one campaign (runs in a background subshell); writes $OUT/rec/<name>.json
campaign() { # $1 target $2 kind
  local t=$1 kind=$2 name=$1-$2
  local want; want=$(runs_for "$t" "$TIER" "$kind")
  local work=$OUT/work/$name art=$OUT/artifacts/$name log=$OUT/logs/$name.log stats=$OUT/stats/$name
  mkdir -p "$work" "$art" "$SCRATCH/$name"
  [ "$kind" = seeded ] && cp "$CORPUS/seeds/$t"/* "$work"/
  local done_runs=0 attempt=0 exit_code=0 first_seed="" started; started=$(date +%s)
  local incomplete=0
  : > "$log"
  while :; do
    local s; s=$(lf_seed "$name" "$attempt"); [ -z "$first_seed" ] && first_seed=$s
    local left=$((want - done_runs))
    echo "=== attempt $attempt: -runs=$left -seed=$s" >> "$log"
    local alog=$log.$attempt
    VERIF_FUZZ_STATS=$stats.$attempt.json VERIF_FUZZ_SCRATCH=$SCRATCH/$name \
      "$BIN/$t" -runs="$left" -seed="$s" -len_control=0 -max_len="$(max_len_for "$t")" \
      -timeout=10 -malloc_limit_mb=256 -rss_limit_mb=3072 -detect_leaks=0 -print_final_stats=1 \
      -artifact_prefix="$art/" "$work" > "$alog" 2>&1
    exit_code=$?
    cat "$alog" >> "$log"
    local ex; ex=$(grep -E '^stat::number_of_executed_units:' "$alog" | tail -1 | awk '{print $2}')
    if [ -z "$ex" ]; then ex=$(grep -E '^#[0-9]+' "$alog" | tail -1 | sed -E 's/^#([0-9]+).*/\1/'); fi
    done_runs=$((done_runs + ${ex:-0}))
    rm -f "$alog"
    if [ "$exit_code" -eq 0 ]; then break; fi
    # non-zero: an artifact was written (crash/oom/timeout) or the target could not run at all
    if [ -z "$(ls -A "$art" 2>/dev/null)" ]; then incomplete=1; break; fi
    # a corpus file that is itself a failing input would stop every restart while the corpus is loaded:
    # libFuzzer names artifacts <kind>-<sha1 of the input>, so such files can be found and set aside
    local a h
    for a in "$art"/*; do
      h=${a##*-}
      sha1sum "$work"/* 2>/dev/null | awk -v h="$h" '$1 == h { print $2 }' | while read -r f; do rm -f "$f"; done
    done
    attempt=$((attempt + 1))
    if [ "$attempt" -gt "$MAX_RESTARTS" ] || [ "$done_runs" -ge "$want" ]; then break; fi
  done
  local last; last=$(grep -E '^#[0-9]+.*cov: ' "$log" | tail -1)
  local cov ft corp eps
  cov=$(echo "$last" | sed -nE 's/.*cov: ([0-9]+).*/\1/p'); ft=$(echo "$last" | sed -nE 's/.*ft: ([0-9]+).*/\1/p')
  corp=$(echo "$last" | sed -nE 's/.*corp: ([0-9]+).*/\1/p')
  local wall=$(( $(date +%s) - started )); [ "$wall" -lt 1 ] && wall=1
  eps=$((done_runs / wall))
  local files; files=$(ls "$work" | wc -l)
  # tolerated known panics: merge the per-attempt stats files (written by the target itself)
  local tol="["; local f first=1
  for f in "$stats".*.json; do [ -f "$f" ] || continue; [ $first = 1 ] || tol="$tol,"; tol="$tol$(cat "$f")"; first=0; done
  tol="$tol]"
  local arts="["; first=1
  for f in "$art"/*; do [ -f "$f" ] || continue; [ $first = 1 ] || arts="$arts,"; arts="$arts\"$f\""; first=0; done
  arts="$arts]"
  printf '{"target":"%s","corpus_kind":"%s","name":"%s","libfuzzer_seed":%s,"runs_requested":%s,"runs":%s,"cov":%s,"ft":%s,"corpus":%s,"corpus_files":%s,"exec_per_s":%s,"wall_s":%s,"exit":%s,"restarts":%s,"incomplete":%s,"stats":%s,"artifacts":%s,"log":"%s"}\n' \
    "$t" "$kind" "$name" "$first_seed" "$want" "$done_runs" "${cov:-0}" "${ft:-0}" "${corp:-0}" "$files" "$eps" "$wall" "$exit_code" "$attempt" "$incomplete" "$tol" "$arts" "$log" \
    > "$OUT/rec/$name.json"
  rm -rf "$SCRATCH/$name"
}

# ---- schedule: longest first (seeded campaigns of the slow targets), then the rest
ORDER=""
for t in mpq blp wmo_root decompress wdt adt wdl m2 anim wmo_group patch skin dbc attributes listfile; do
  case " $TARGETS " in *" $t "*) ORDER="$ORDER $t:seeded";; esac
done
for t in mpq blp wmo_root decompress wdt adt wdl m2 anim wmo_group patch skin dbc attributes listfile; do
  case " $TARGETS " in *" $t "*) ORDER="$ORDER $t:empty";; esac
done
running=0
for c in $ORDER; do
  while [ "$running" -ge "$JOBS" ]; do wait -n; running=$((running - 1)); done
  campaign "${c%%:*}" "${c##*:}" &
  running=$((running + 1))
done
wait

# ---- summary
status=0
{
  printf '{"tier":"%s","seed":%s,"wall_s":%s,"flags":"-len_control=0 -timeout=10 -malloc_limit_mb=256 -rss_limit_mb=3072 -detect_leaks=0","campaigns":[' "$TIER" "$SEED" "$(( $(date +%s) - T0 ))"
  first=1
  for c in $ORDER; do
    f=$OUT/rec/${c%%:*}-${c##*:}.json
    if [ ! -s "$f" ]; then status=4; continue; fi
    [ $first = 1 ] || printf ','
    cat "$f"; first=0
  done
  printf ']}\n'
} > "$OUT/summary.json.tmp"
mv "$OUT/summary.json.tmp" "$OUT/summary.json"
if grep -q '"incomplete":1' "$OUT/summary.json"; then status=4; fi
# corpora of finished campaigns are only needed for triage; keep them small on disk
du -sm "$OUT/work" 2>/dev/null | awk '{ if ($1 > 2048) print "run.sh: note: " $1 " MiB of campaign corpora under '"$OUT"'/work" }'
echo "run.sh: tier=$TIER seed=$SEED campaigns=$(echo $ORDER | wc -w) wall=$(( $(date +%s) - T0 ))s summary=$OUT/summary.json status=$status"
exit $status
