//! libFuzzer target for the "m2" family of C05 (see ../src/lib.rs and vcheck::targets::run_target)
#![no_main]
libfuzzer_sys::fuzz_target!(|data: &[u8]| {
    vfuzz::fuzz_one("m2", data);
});
