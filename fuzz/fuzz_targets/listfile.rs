//! libFuzzer target for the "listfile" family of C05 (see ../src/lib.rs and vcheck::targets::run_target)
#![no_main]
libfuzzer_sys::fuzz_target!(|data: &[u8]| {
    vfuzz::fuzz_one("listfile", data);
});
