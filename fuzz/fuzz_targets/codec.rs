//! libFuzzer target of C03 (codec round trip): the oracle of /verif/harness/src/bin/c03 runs INSIDE the
//! target, so coverage guidance searches encoder/decoder corners for an input that does not invert,
//! expands, or is refused by the library's own decoder.
//!
//! Input layout: byte 0 selects the compression selector (table below: the five lossless codecs, the
//! ADPCM selectors, every two-flag combination), the rest is the data handed to `compress`.
//! Any clause failure prints `FUZZ-C03 signature=…` and aborts (libFuzzer stores the input); a selector
//! or input shape the compressor refuses is "unsupported" exactly as in the check. Artifacts are judged
//! again by `c03` itself (`Content::Bytes` case), which is where a VIOLATION and its replay file come from.
#![no_main]
#![allow(dead_code)]
#[path = "../../harness/src/bin/c03/blast.rs"]
mod blast;
#[path = "../../harness/src/bin/c03/content.rs"]
mod content;
#[path = "../../harness/src/bin/c03/oracle.rs"]
mod oracle;

use std::sync::Once;
static INIT: Once = Once::new();

/// the selector table shared with `c03 --fuzz-selectors` (kept in oracle.rs so both sides agree)
fn selector(b: u8) -> u8 {
    let t = oracle::fuzz_selectors();
    t[(b as usize) % t.len()]
}

libfuzzer_sys::fuzz_target!(|data: &[u8]| {
    INIT.call_once(|| vcheck::engine::install_panic_hook());
    if data.is_empty() {
        return;
    }
    let case = oracle::Case { method: selector(data[0]), content: content::Content::Bytes(data[1..].to_vec()) };
    let (info, r) = oracle::evaluate(&case, &data[1..]);
    if info.time_limit {
        return;
    }
    if let Err(f) = r {
        eprintln!("FUZZ-C03 signature={}\n  {} (selector {:#04x}, {} data bytes)", f.signature, f.message, case.method, data.len() - 1);
        std::process::abort();
    }
});
