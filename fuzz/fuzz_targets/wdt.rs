//! libFuzzer target for the "wdt" family of C05 (see ../src/lib.rs and vcheck::targets::run_target)
#![no_main]
libfuzzer_sys::fuzz_target!(|data: &[u8]| {
    vfuzz::fuzz_one("wdt", data);
});
